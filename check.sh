#!/bin/bash
# usage: check.sh <ID> <quick|thorough>   |   check.sh replay <path>
# exit 0: property held on everything explored; 1: VIOLATION line(s) printed; 2: machinery failure.
# The thorough tier has two passes: first the quick space with harness and interpreter built WITHOUT
# debug assertions and overflow checks (profile verifrel / the release binary; evidence in
# evidence/<ID>.release.json), then the thorough space under the profile of the repository's own test
# suite. A violation in either pass ends the check with exit 1.
# VERIF_FROZEN_DIR=<dir> (maintenance only, see tools/freeze.sh): run <dir>/mc against <dir>/ruschm
# without rebuilding, so that a long run is not affected by later rebuilds from a changed /repo.
release_pass() { # $1 = mc binary, $2 = ruschm binary, $3 = ID
  local out rc
  out=$(MC_PROFILE_TAG=release RUSCHM_BIN="$2" "$1" check "$3" --tier quick 2>&1); rc=$?
  echo "$out" | grep -v "^KNOWN-FINDING"
  RELEASE_NOTE="release-profile pass (quick space, harness and interpreter without debug assertions / overflow checks): $(echo "$out" | grep "^$3 quick" | tail -1)"
  return $rc
}
if [ -n "$VERIF_FROZEN_DIR" ]; then
  if [ "$1" = "replay" ]; then
    if grep -q '"profile": "release"' "$2" 2>/dev/null; then RUSCHM_BIN="$VERIF_FROZEN_DIR/ruschm-release" exec "$VERIF_FROZEN_DIR/mc-release" replay "$2"; fi
    RUSCHM_BIN="$VERIF_FROZEN_DIR/ruschm" exec "$VERIF_FROZEN_DIR/mc" replay "$2"
  fi
  if [ "${2:-quick}" = "thorough" ] && [ -x "$VERIF_FROZEN_DIR/mc-release" ]; then
    release_pass "$VERIF_FROZEN_DIR/mc-release" "$VERIF_FROZEN_DIR/ruschm-release" "$1" || exit $?
    export MC_EXTRA_NOTE="$RELEASE_NOTE"
  fi
  export RUSCHM_BIN="$VERIF_FROZEN_DIR/ruschm"
  exec "$VERIF_FROZEN_DIR/mc" check "$1" --tier "${2:-quick}"
fi
cd /verif/mc || exit 2
export CARGO_NET_OFFLINE=true
export RUSTFLAGS="--cfg ruschm_verif"
mkdir -p /verif/target
build_mc() { # $1 = profile
  if ! cargo build --profile "$1" --offline -q 2>/verif/target/build.log; then
    echo "MACHINERY-ERROR build failed (see /verif/target/build.log)"; tail -30 /verif/target/build.log; exit 2
  fi
}
build_bin() { # $1 = "" | --release
  if ! CARGO_TARGET_DIR=/verif/target/repo-bin cargo build --manifest-path /repo/Cargo.toml --bin ruschm $1 --offline -q 2>/verif/target/build-bin.log; then
    echo "MACHINERY-ERROR build of ruschm binary failed"; tail -30 /verif/target/build-bin.log; exit 2
  fi
}
needs_bin() { case "$1" in C14|C17|C18) return 0;; *) return 1;; esac; }
if [ "$1" = "replay" ]; then
  if grep -q '"profile": "release"' "$2" 2>/dev/null; then
    build_mc verifrel; build_bin --release
    RUSCHM_BIN=/verif/target/repo-bin/release/ruschm exec /verif/target/verifrel/mc replay "$2"
  fi
  build_mc verif; build_bin ""
  exec /verif/target/verif/mc replay "$2"
fi
ID="$1"; TIER="${2:-quick}"
if [ "$TIER" = "thorough" ]; then
  build_mc verifrel
  if needs_bin "$ID"; then build_bin --release; fi
  release_pass /verif/target/verifrel/mc /verif/target/repo-bin/release/ruschm "$ID" || exit $?
  export MC_EXTRA_NOTE="$RELEASE_NOTE"
fi
build_mc verif
if needs_bin "$ID"; then build_bin ""; fi
exec /verif/target/verif/mc check "$ID" --tier "$TIER"

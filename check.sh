#!/bin/bash
# usage: check.sh <ID> <quick|thorough>   |   check.sh replay <path>
# exit 0: property held on everything explored; 1: VIOLATION line(s) printed; 2: machinery failure.
# VERIF_FROZEN_DIR=<dir> (maintenance only, see tools/freeze.sh): run <dir>/mc against <dir>/ruschm
# without rebuilding, so that a long run is not affected by later rebuilds from a changed /repo.
if [ -n "$VERIF_FROZEN_DIR" ]; then
  export RUSCHM_BIN="$VERIF_FROZEN_DIR/ruschm"
  if [ "$1" = "replay" ]; then exec "$VERIF_FROZEN_DIR/mc" replay "$2"; fi
  exec "$VERIF_FROZEN_DIR/mc" check "$1" --tier "${2:-quick}"
fi
cd /verif/mc || exit 2
export CARGO_NET_OFFLINE=true
export RUSTFLAGS="--cfg ruschm_verif"
mkdir -p /verif/target
if ! cargo build --profile verif --offline -q 2>/verif/target/build.log; then
  echo "MACHINERY-ERROR build failed (see /verif/target/build.log)"; tail -30 /verif/target/build.log; exit 2
fi
MC=/verif/target/verif/mc
if [ "$1" = "replay" ]; then exec $MC replay "$2"; fi
ID="$1"; TIER="${2:-quick}"
case "$ID" in
  C14|C17|C18)
    if ! CARGO_TARGET_DIR=/verif/target/repo-bin cargo build --manifest-path /repo/Cargo.toml --bin ruschm --offline -q 2>/verif/target/build-bin.log; then
      echo "MACHINERY-ERROR build of ruschm binary failed"; tail -30 /verif/target/build-bin.log; exit 2
    fi ;;
esac
exec $MC check "$ID" --tier "$TIER"

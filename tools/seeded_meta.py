#!/usr/bin/env python3
"""Writes /verif/seeded/<id>/meta.json from results.log + confirm.json (run after tools/confirm_mutant.sh and tools/try_mutant.sh)."""
import json,re,os
res={}
for l in open('/verif/seeded/results.log'):
    m=re.match(r'^(C\d\d-\d+)\s*\((.*?)\)\s*:\s*(.*)$',l.strip())
    if not m:
        m2=re.match(r'^(C\d\d-\d+)\s+(.*?):\s*(.*)$',l.strip())
        if m2: res.setdefault(m2.group(1),{}).setdefault('extra',[]).append(m2.group(2).strip()+': '+m2.group(3))
        continue
    k=m.group(1); d=res.setdefault(k,{})
    d['change']=m.group(2); d['detection']=m.group(3)
for k in sorted(os.listdir('/verif/seeded')):
    p='/verif/seeded/'+k
    if not os.path.isdir(p): continue
    r=res.get(k,{})
    conf=json.load(open(p+'/confirm.json')) if os.path.exists(p+'/confirm.json') else {}
    notes=open(p+'/notes.md').read() if os.path.exists(p+'/notes.md') else ''
    det=r.get('detection','')
    caught=sorted(set(re.findall(r'(C\d\d) (?:quick|thorough) CAUGHT',det)))
    meta={"id":k,"property":k.split('-')[0],
      "change":r.get('change','see notes.md'),
      "needs_to_manifest": json.load(open(p+"/meta.json")).get("needs_to_manifest","see notes.md") if os.path.exists(p+"/meta.json") else "see notes.md",
      "produced_by":"fresh sub-agent given only the property text and a scratch worktree of /repo (nothing from /verif)",
      "confirmed":{"in":"scratch worktree /tmp/wt/%s moved to /repo's HEAD %s"%(k.split('-')[0],conf.get('repo_head','?')),
                   "repository_suite_with_change":conf.get('suite_with_patch'),
                   "demonstration_without_change_rc":conf.get('demo_without_patch_rc'),
                   "demonstration_with_change_rc":conf.get('demo_with_patch_rc'),
                   "commands":conf.get('commands')},
      "checks_run":"tools/try_mutant.sh patch.diff <checks> (git apply in /repo, ./check.sh <ID> quick, git checkout -- .)",
      "detected_by":caught,
      "detection_notes":det + (" | "+" | ".join(r['extra']) if r.get('extra') else ''),
      "files":["patch.diff","demo.*","notes.md","confirm.json"]}
    json.dump(meta,open(p+'/meta.json','w'),indent=1)
    print(k,caught)

#!/usr/bin/env python3
"""usage: tools/design_table.py <thorough log of tools/run_all.sh> — prints the table of DESIGN.md section 8:
quick columns from /verif/evidence/<id>.json (must be quick-tier evidence), thorough columns from the log."""
import json,re,sys
ENG={"C01":"sweep","C02":"sweep + invariant","C03":"hist","C04":"sweep","C05":"sweep","C06":"sweep","C07":"sweep, supervised","C08":"sweep (histories)","C09":"sweep","C10":"sweep","C11":"sweep","C12":"sweep","C13":"hist, worker processes","C14":"hist, supervised","C15":"sweep","C16":"sweep","C17":"sweep, process","C18":"sweep + hist, process","C19":"hist"}
th={}; rel={}
for l in open(sys.argv[1]):
    m=re.match(r'^(C\d\d) thorough rc=(\d+) t=(\d+)s :: C\d\d thorough: evaluations=(\d+) states=(\d+) transitions=(\d+) distinct=(\d+) violations=(\d+)',l)
    if m: th[m.group(1)]=dict(rc=int(m.group(2)),t=int(m.group(3)),ev=int(m.group(4)),st=int(m.group(5)),viol=int(m.group(8)))
sp=lambda x: f"{x:,}".replace(","," ")
print("| id | engine | quick: evaluations | states / distinct outcomes | transitions | wall | thorough: evaluations | states | wall (both passes) |")
print("|---|---|---|---|---|---|---|---|---|")
for i in sorted(ENG):
    e=json.load(open(f'/verif/evidence/{i}.json'))
    assert e['tier']=='quick',(i,e['tier'])
    c=e['coverage']; t=th.get(i)
    print(f"| {i} | {ENG[i]} | {sp(c['evaluations'])} | {sp(c['states'])} | {sp(c['transitions'])} | {round(e['wall_s'])} s | {sp(t['ev']) if t else '?'} | {sp(t['st']) if t else '?'} | {str(t['t'])+' s' if t else '?'} |")
bad=[i for i,t in th.items() if t['rc']!=0 or t['viol']!=0]
print("\nthorough checks with rc != 0 or violations:",bad, "; total thorough wall:", sum(t['t'] for t in th.values()),"s")

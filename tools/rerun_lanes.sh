#!/bin/bash
# usage: tools/rerun_lanes.sh <lanes> [IDs...] — tools/rerun_seeded.sh in <lanes> parallel private copies.
# Each lane is a mount namespace in which a clone of /repo (at its HEAD) is bound over /repo and a copy of
# /verif over /verif, so the seeded changes never touch the real /repo and the mutant runs never touch
# the real /verif/evidence. Maintenance only: nothing registered in MANIFEST.json uses it. Output: /tmp/lanes/<k>.log
set -u
N="$1"; shift
LIST="${@:-$(ls /verif/seeded | grep -E '^C[0-9]{2}-[0-9]+$')}"
[ -z "$(git -C /repo status --porcelain)" ] || { echo "REFUSING: /repo not clean"; exit 2; }
rm -rf /tmp/lanes; mkdir -p /tmp/lanes
i=0; for K in $LIST; do echo "$K" >> /tmp/lanes/ids.$((i % N)); i=$((i+1)); done
for k in $(seq 0 $((N-1))); do
  [ -f /tmp/lanes/ids.$k ] || continue
  mkdir -p /tmp/lanes/$k
  git clone -q /repo /tmp/lanes/$k/repo
  rsync -a --exclude 'target/scratch' --exclude 'target/frozen' /verif/ /tmp/lanes/$k/verif/
  ( unshare -m bash -c "mount --bind /tmp/lanes/$k/repo /repo && mount --bind /tmp/lanes/$k/verif /verif && cd /verif && tools/rerun_seeded.sh $(tr '\n' ' ' < /tmp/lanes/ids.$k)" > /tmp/lanes/$k.log 2>&1; rm -rf /tmp/lanes/$k ) &
done
wait
cat /tmp/lanes/*.log | sort > /tmp/lanes/all.log
echo "done: $(wc -l < /tmp/lanes/all.log) lines in /tmp/lanes/all.log"

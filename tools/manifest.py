#!/usr/bin/env python3
"""Regenerates /verif/MANIFEST.json from the table below (kept next to the checks so the
manifest stays valid and current)."""
import json, subprocess
props = [json.loads(l) for l in open('/verif/properties.jsonl')]

CLAIMED = {
 "C01": dict(
   technique="bounded exhaustive enumeration (count/unrank by node count) of all typed core programs, each executed on the real interpreter and on a reference evaluator",
   text="Every program of a typed core grammar (applications with fixed/rest parameters, lambda, top-level definitions in both spellings, internal definitions with forward references, if with boolean and non-boolean tests, quote, apply with and without spread arguments, higher-order and closure-making procedures, a tick probe at every position) with at most N nodes, under two naming disciplines, is evaluated form by form on the real interpreter; the value and the tick trace of every form must equal the reference evaluator's under one operand-order policy. Two further grammars go deeper on narrower vocabularies: a scoping grammar (thunks and one-parameter procedures with internal definitions, top-level names colliding with internal ones) and a loop grammar (user-defined recursion on a decreasing counter with integer or list-of-thunks accumulators that capture the loop variables, the same loop run through a closure maker that yields a new closure every round, inline-lambda scopes, set! and internal definitions in bodies). The simplest programs are additionally re-run from the initial state of a fresh interpreter.",
   note="trusted: refsem (definitional evaluator written from R7RS, self-tested on the report's examples); programs beyond the node bound are not explored",
   design="7/C01"),
 "C03": dict(
   technique="explicit-state breadth-first search over operation histories, each transition replayed on the real interpreter and on a reference store model, states deduplicated on the canonical reference store",
   text="Breadth-first search over ALL histories (up to the depth bound) of 41 operations on a pool of counters (private and shared bindings nested two frames deep), captured and redefined top-level variables, parameter assignment, and vectors aliased through variables, lists, vectors, arguments, closures, make-vector fill and vector slots. Every transition is executed on the real interpreter by replaying the history; the operation's result, the alias partition of 10 places (Rc pointer identity) and 37 probe forms must equal the reference store. The lower depths are re-explored with a new interpreter per transition.",
   note="trusted: refsem as store model; canonical-state deduplication is sound because the dump covers every location reachable from the pool",
   design="7/C03"),
 "C05": dict(
   technique="bounded exhaustive sweep: every shape x truth assignment x context of every derived form and all nested pairs/triples, executed on the real interpreter against a reference evaluator",
   text="Every shape of begin/let/let*/cond/case/and/or/when/unless (650+ templates) with a tick probe in every sub-form position under every truth assignment of its tests, in three evaluation contexts; every ordered pair (thorough: triple) of representative forms nested in every sub-form position; let/let* scoping against enclosing variables, scopes observed through closures made before a shadowing binding and through set! inside every binding / conditional form; plus the hygiene facet (user variables named like identifiers of the bundled macro file, user rebinding of identifiers the templates rely on). Value and tick trace (order and multiplicity of evaluation) must equal the reference, which implements the forms directly from R7RS.",
   note="trusted: refsem; known findings (hygiene, top-level begin) are recognised only by an exact defect model on cases carrying the facet",
   design="7/C05"),
 "C08": dict(
   technique="exhaustive product of fault kind x calling context x depth x position, each a history on one fresh interpreter compared form by form with a reference evaluator",
   text="The full product of 69 faulting expressions (8 fault kinds, incl. faulty tail calls in a later round of a self / mutual / new-closure loop and faults raised inside Scheme-defined library procedures) x 22 calling contexts (direct, operand, tail call, tail of if/cond/let, base case of tail loops and of a non-tail recursion, apply, callbacks of library procedures, right-hand sides, effects before/after) x depth x position is run as a history of forms on one fresh interpreter; the error kind of the failing form, the effects kept before it, the absence of effects after it and the results of all later probe forms must equal the reference.",
   note="trusted: refsem error kinds; one fault per form",
   design="7/C08"),
 "C09": dict(
   technique="bounded exhaustive sweep of the real evaluator over operand tuples (G, G^2, G^3) against an independent reference numeric tower",
   text="Every unary operation on a grid G of boundary numbers (literals and computed values of every internal representation), every binary operation on G^2 and every 3-operand fold on G^3 is executed on the real interpreter and compared with an i128-rational / IEEE-f32 reference: no tuple of the grid violates exactness, division-by-zero or contagion. Small-scope assurance: exhaustive inside the grid, nothing outside it.",
   note="trusted: refnum (self-tested on R7RS examples); the grid is finite; overflow behaviour judged under overflow-checks (the profile of the pinned suite)",
   design="7/C09"),
 "C10": dict(
   technique="bounded exhaustive sweep of the real evaluator over all pairs and ordered triples of the number grid against a reference order",
   text="=,<,>,<=,>=,max,min on all pairs and ordered triples of the grid and eqv? on all pairs are executed on the real interpreter and compared with the mathematical order computed on i128 rationals (exact vs inexact after conversion to binary32).",
   note="trusted: refnum order; finite grid",
   design="7/C10"),
}
 
CLAIMED["C11"] = dict(
   technique="bounded exhaustive sweep of every list-library procedure over all argument tuples of small domains, compositions and a length ladder, against reference list functions",
   text="Every list-library procedure is run on every tuple of its argument domain (all proper lists up to length 3 (thorough 4) over three atoms, nested and improper variants, non-lists, all indices -1..len+1, ticking procedure arguments), on all two-level compositions of ten list functions and on a ladder of lengths up to 1000 (3000); results and tick traces (once per element, in order) must equal refsem's list functions; where the reference raises an error the implementation must raise one.",
   note="trusted: refsem list library (R7RS 6.4; folds in minischeme argument order); R7RS-unspecified argument combinations are excluded and counted",
   design="7/C11")
CLAIMED["C04"] = dict(
   technique="bounded exhaustive sweep: every rule set of bounded size against every use of bounded size through the real expander, judged by an independent syntax-rules matcher",
   text="Every argument pattern up to the node bound (variables, _, literal identifier, literal data, sub-lists and vectors nested <= 2 with optional final ellipsis) with every canonical template and both literal sets, all ordered pairs (thorough: triples) of small rules, against every use up to the node bound: the rule set is installed through the real parser, each use is pushed through the real Transformer::transform (and, for the smallest rules, evaluated as (m ...) text) and must yield the first matching rule's instantiated template or a syntax error, as the reference matcher written from R7RS 4.3.2 says.",
   note="trusted: refsyn (self-tested on R7RS examples); pairs on which zero-or-more and one-or-more ellipsis semantics differ are outside the property's class and only counted",
   design="7/C04")
CLAIMED["C06"] = dict(
   technique="bounded exhaustive sweep: all strings up to a length over a 19-character alphabet, all token-pair adjacencies and all small datum trees under all layouts, against an independent tokenizer/reader",
   text="Every string of length <= 5 (thorough 6) over 19 characters that reach every scanner transition is tokenised by the real lexer and compared with a reference tokenizer written from R7RS 7.1.1 (tokens end only at delimiters); the shorter ones are also read as quoted data through eval and compared with a reference reader. Every ordered pair of 39 token representatives x 9 separators x 5 contexts and every datum tree up to 4 (5) nodes under every layout plan is judged the same way, as is every ASCII character (and every ordered pair of them) inserted after each of 40 prefixes that leave the scanner inside each token class.",
   note="trusted: reflex (self-tested on the repository's own lexer vectors); texts that use lexical syntax outside the supported subset are counted, not judged; the pinned non-delimited booleans/characters are a known finding recognised by an exact defect-model tokenizer",
   design="7/C06")
CLAIMED["C07"] = dict(
   technique="bounded exhaustive input sweep in supervised worker processes (watchdog, rlimits, death classification) with post-condition forms on the same interpreter",
   text="Every string up to length 4 (5) over a 20-character alphabet, every sequence of up to 3 (4) tokens over a 48-token vocabulary of keywords, builtins and boundary literals (plus 4 (5)-token sequences over a reduced vocabulary), every single-token mutation of the corpus (examples, test macros, the three bundled library sources) both as program text and as registered library source, every string of up to 3 exotic characters, every single-byte corruption of a program and a library file, exotic characters (byte-order mark, NUL, line separators ...) at the start, line starts and end of such files, truncated and empty files (plus directory / missing paths), and every exported procedure on every tuple of up to 2 (3) boundary arguments is evaluated on the real interpreter inside supervised worker processes; the outcome must be a value or a reported error, and three sanity forms must still give their values on the same interpreter.",
   note="stack exhaustion, memory exhaustion and non-termination end the worker, are classified by the supervisor and are listed as excluded (outside the property's claim); coverage accounting requires every index to be covered exactly once",
   design="7/C07")
CLAIMED["C16"] = dict(
   technique="bounded exhaustive sweep over value spaces (all 2^32 binary32 bit patterns in the thorough tier), read(display(v)) compared structurally with v",
   text="display of every value of the enumerated spaces - float bit-pattern classes (thorough: every finite binary32), boundary integers, reduced ratios, every Unicode scalar value as a character, every identifier of length <= 3 over a 21-character alphabet, results of the number grid, every value tree up to 5 (6) nodes with proper lists, dotted tails and (literal/mutable, empty) vectors - is fed back through the real lexer / read_literal (atoms) and through eval of the quoted text, and must yield a structurally equal value of the same exactness; list formatting and injectivity on the tree set are checked.",
   note="round trip for every enumerated value implies injectivity on that set; strings, non-finite reals and symbols needing bars are outside the property",
   design="7/C16")
CLAIMED["C12"] = dict(
   technique="bounded exhaustive enumeration of all import-set terms up to nesting depth 3 with all admissible argument lists, each evaluated on the real interpreter against an independent algebra",
   text="Every import-set term of nesting depth <= 3 over a 4-export library (only/except with every subset of the current names, both prefixes, rename with every injective partial map of <= 2 names incl. swaps and chains in both pair orders), with the library supplied natively, as registered source and as a file, and every ordered pair of depth-<=1 terms in one declaration: (import ...) is evaluated in an empty environment of the real interpreter and the resulting bindings must be exactly the name -> export map the algebra yields; each declaration runs on two interpreter instances that must agree.",
   note="hash seeds cannot be enumerated or injected by an add-only hook: two instances per declaration sample that dimension; the term space is exhaustive",
   design="7/C12")
CLAIMED["C17"] = dict(
   technique="bounded exhaustive enumeration of program files (form sequences x file variants) run through the built binary, compared with a reference evaluator's output and with in-process evaluation",
   text="Every program file made of the import line and every sequence of up to 3 (4) forms from a 19-form menu (displays, definitions, silent expressions, multi-line forms, 9 kinds of failing forms) x LF/CRLF x final newline x working directory is run through the built ruschm binary: stdout must be exactly what the reference evaluator displays before the first failing form, the exit status 0 iff no form fails, otherwise non-zero with exactly one diagnostic FILE:LINE:COL MESSAGE whose line lies inside the failing form and whose message is the library interface's; in-process evaluation of the same text must stop at the same form with the same error kind. Every program of <= 2 successful forms also ends in each of 10 unreadable texts (stray unquote, unterminated string/list/vector, dangling quote ...): non-zero status and one diagnostic at or after that text. Missing, directory and non-UTF-8 files must give a diagnostic and a non-zero status.",
   note="the binary is rebuilt from /repo by check.sh; process-level observation only (stdout, stderr without SGR codes, exit status)",
   design="7/C17")
CLAIMED["C18"] = dict(
   technique="exhaustive sweep of the completeness predicate over all strings up to length 7 (8) through a hook, and exhaustive enumeration of input-line sequences fed to the built REPL binary, against a reference REPL",
   text="(1) The REPL's completeness test is compared with the reference predicate on every string up to length 7 (8) over a 10-character alphabet (parens, string/bar/char/comment introducers, newline). (2) Every sequence of up to 3 (4) input lines from a 31-fragment menu (incl. closing lines with trailing text and submissions ending in a definition) and every two-line split of twelve forms at every token gap is piped into the built binary; stdout and stderr must equal the reference REPL's transcript, which cuts submissions with the reference predicate and evaluates them in sequence on one interpreter through the library interface.",
   note="hook H1 (cfg ruschm_verif) exposes the private completeness test; terminal mode of rustyline is not driven",
   design="7/C18")
CLAIMED["C15"] = dict(
   technique="bounded exhaustive sweep of fault x context x wrapper x layout plans, the reported position compared with extents recorded by the renderer",
   text="Every C08 fault expression in every calling context and inside every derived-form wrapper (12 wrappers, at top level and inside a procedure) is rendered under every assignment of 5 separators (blank, LF, LF+indent, comment+LF, CRLF) to the first 3 (4) gaps of the failing form, after 0-2 preceding forms; the whole text is evaluated at once. The error must carry a location; for an unbound variable read or a non-procedure it must lie at an occurrence of the offending identifier / at the operator, otherwise - including faults raised inside Scheme-defined library procedures - inside the failing top-level form; never elsewhere.",
   note="'at' tolerates the implementation's end-of-token convention (start <= position <= end+1); an assignment to an unbound variable is judged as 'inside the failing form' because the syntax tree keeps no position for its identifier (DESIGN 7/C15)",
   design="7/C15")
CLAIMED["C13"] = dict(
   technique="explicit-state breadth-first search over importer operation histories for each import configuration, transitions replayed on fresh interpreters against a reference module system",
   text="For 14 configurations (import graphs P->L, P->L + P->M->L, P->M->L only, L imported twice through different import sets, M before L, a library without import declaration alone and next to L; libraries as registered sources and as files) all histories of 18 importer operations up to depth 4 (6) are explored breadth-first with deduplication on the reference module system's canonical state; every transition is replayed on a fresh interpreter on a fresh thread and the operation plus 25 probes (unexported internals unbound, a binding exported under two names, the import-less library blind to names only the importer defines, the library blind to the importer's definitions, imported names redefinable without affecting the library, one shared instance) must match.",
   note="reference module system built on refsem: one instance per library per program, library scope = primitives + own imports + own definitions",
   design="7/C13")
CLAIMED["C14"] = dict(
   technique="exhaustive enumeration of library graphs x health placements x import-attempt histories, executed in supervised worker processes against a reference loader outcome function and a state invariant through a hook",
   text="Every directed graph on 1-2 libraries with every assignment of 7 node healths, and every graph on 3 libraries with at most one unhealthy node (thorough: every assignment), is materialised as library files under a program directory (with same-named decoys of different value in the working directory) and as registered sources, the library-to-library edges written as plain names and (all configurations on <= 2 libraries, all-healthy graphs on 3) as only / prefix / rename / except / mixed import sets; every history of import attempts on one interpreter is executed. Each attempt must succeed iff the reference loader finds neither a reachable cycle nor a reachable unhealthy library, and otherwise fail with one of the corresponding error kinds - independently of earlier attempts; after every attempt the in-progress set (hook H2) must be empty and the exports of successfully imported libraries must hold the program-directory values. A configuration that kills or hangs its worker process is a violation (termination).",
   note="supervised workers (watchdog 10 s, rlimits); hook H2 verif_in_progress; coverage accounting requires every configuration exactly once",
   design="7/C14")
CLAIMED["C19"] = dict(
   technique="exhaustive enumeration of all interleavings of two programs' forms over two instances on one thread, for all pairs from two program pools, compared with each program run alone",
   text="For every pair of programs from two pools of 12 (16) programs with colliding names (definitions, assignments, stateful closures, vector mutation, define-syntax of new, equal and bundled keywords, failing imports, run-time errors, uses of derived forms) every interleaving of A's forms on instance 1 with B's forms on instance 2 is executed on a fresh thread; both programs' per-form results must equal those of the program run alone, the in-progress sets (hook H2) must be empty, and after every step a newly created third instance must evaluate a form built from let/cond/when/or correctly.",
   note="sequential interleavings of two operation lists on one thread: the crate is single-threaded (Rc/RefCell), there are no scheduler interleavings to explore",
   design="7/C19")
CLAIMED["C02"] = dict(
   technique="exhaustive enumeration of tail-context compositions x loop shapes, with a per-iteration state invariant (machine stack depth and live heap sampled by a native probe at every iteration)",
   text="Every composition of the 28 tail contexts (incl. user-defined macros and a parallel let exchanging the loop variables) of length 1-2 (thorough 3) x 7 loop shapes (self, 2- and 3-way mutual, procedure parameter, variadic, closure-returned, closure with captured state that differs per round) is run for N = 64 and N = 20000 / 3000 iterations on the real interpreter; a native procedure called in every iteration samples the address of a local (real stack depth) and the evaluating thread's live heap. Neither may be larger in the second half of the iterations than in the first (stack byte-exact, heap within 256 B), and the result must be the closed form.",
   note="the no-growth invariant observed at every iteration is what carries the claim beyond the executed N; tail calls through apply are a recorded known finding",
   design="7/C02")
NOT_YET = "check not built yet (build in progress, see DESIGN.md section 12)"
NA = {}

# one-parameter scale ladders (DESIGN.md section 7, "Scale ladders"): appended to the level text
LADDER = {
 "C01": "argument / parameter / rest lists, definitions, bodies, loop rounds and live closures at every size N <= 300 (thorough 600), nesting depth <= 100",
 "C02": "the tail call behind W <= 130 (400) clauses / operands / bindings and inside D <= 130 (150) nested forms, 15 families",
 "C03": "assignments of look-alike objects (equal vector, sibling closure, other exactness) are among the operations",
 "C04": "ellipsis runs of every length <= 160 (400) with distinct items; strings / characters spelled like a literal identifier",
 "C05": "every derived form at every width N <= 120 (300) and nesting depth <= 60, incl. an outer variable assigned from the N-th sub-form",
 "C06": "digit runs <= 60, identifiers / strings / |symbols| <= 300",
 "C07": "messages quoting values of every length <= 300 characters; the empty symbol wherever values are quoted",
 "C08": "every kind of fault N <= 80 (200) times in a row, directly and 20 deep in a recursion, before the probes",
 "C09": "operand lists of every length 3..100 (300); Fibonacci quotients up to F(46)",
 "C10": "operand lists of every length 3..100 (300)",
 "C11": "lists of distinct elements of every length <= 130 (300); values of different types with the same spelling",
 "C12": "libraries with N <= 64 (300) exports under only / except / prefix / rename chains, rotations and swaps; the same binding through two import sets",
 "C13": "a stateful library, N <= 48 (128) further libraries and a late importer",
 "C14": "a multi-byte character at every byte offset <= 700 of a healthy library file; library names whose file paths coincide",
 "C15": "the failing form on every line / column <= 300 (700); forms spanning n lines / n operands",
 "C16": "lists, dotted lists and vectors of every length <= 300 (600)",
 "C17": "messages of every length up to ~700 bytes and the failing form on every line <= 302, through the binary",
 "C18": "forms nested N <= 200 (400) deep in sessions, the predicate on depth / token length <= 400; values that print as an empty line",
 "C19": "ladders of up to 1000 failing forms incl. macro uses whose expansion is rejected",
}
for _k, _v in LADDER.items():
    CLAIMED[_k]["text"] = CLAIMED[_k]["text"].rstrip() + " Scale ladders (every size of a few fixed shapes, same oracle): " + _v + "."

def main():
    hooks = subprocess.run(["git","-C","/repo","log","--format=%H %s"],capture_output=True,text=True).stdout.splitlines()
    hook_commits=[l.split()[0] for l in hooks if ' verif hook' in l]
    checks=[]
    for p in props:
        i=p["id"]
        if i in CLAIMED:
            c=CLAIMED[i]
            checks.append({
              "property_id": i,
              "quick_cmd": f"./check.sh {i} quick",
              "thorough_cmd": f"./check.sh {i} thorough",
              "evidence_file": f"/verif/evidence/{i}.json",
              "replay_cmd_template": "./check.sh replay {path}",
              "engine": "mc",
              "level_claimed": {"category":"model_checking","text":c["text"],"design_ref":"DESIGN.md section "+c["design"]},
              "level_note": c["note"],
              "technique": c["technique"],
            })
    m={"version":1,
       "setup_cmd":"cd /verif && ./setup.sh",
       "hooks":{"guard":"ruschm_verif",
                "enable":"RUSTFLAGS=\"--cfg ruschm_verif\" (set by /verif/check.sh and /verif/setup.sh; build output in /verif/target, separate from /repo/target)",
                "baseline_off_cmd":"cd /repo && cargo test --workspace --no-fail-fast --offline",
                "source_commits":hook_commits,"add_only":True},
       "engines":[{"name":"mc","path":"/verif/mc","serves_properties":sorted(CLAIMED),
                   "kind_free_text":"Rust binary linking the real ruschm crate: bounded-exhaustive input sweeps (E-sweep) and explicit-state BFS over operation histories replayed on fresh interpreters (E-hist), judged by independent reference models"}],
       "checks":checks,
       "not_applicable":[{"property_id":p["id"],"reason":NA.get(p["id"],NOT_YET)} for p in props if p["id"] not in CLAIMED],
       "notes":"The thorough tier of every check has two passes: first the quick space with harness, interpreter and (C14, C17, C18) the ruschm binary built without debug assertions and overflow checks (evidence/<ID>.release.json), then the thorough space under the profile of the repository's own test suite; a violation in either pass is exit 1. All checks: exit 0 = held on everything explored (KNOWN-FINDING lines for entries of /verif/known_findings.json), exit 1 = VIOLATION lines, exit 2 = machinery failure. See DESIGN.md."}
    json.dump(m,open('/verif/MANIFEST.json','w'),indent=1)
    print("claimed:",sorted(CLAIMED))
main()

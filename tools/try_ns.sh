#!/bin/bash
# usage: tools/try_ns.sh <lane-name> <seeded ids...> — tools/rerun_seeded.sh for the ids inside a private mount namespace
# (clone of /repo at HEAD over /repo, fresh copy of the current /verif over /verif); the real /repo and /verif/evidence stay untouched.
L=/tmp/lanew/$1; shift
mkdir -p $L
[ -d $L/repo ] || git clone -q /repo $L/repo
git -C $L/repo fetch -q origin && git -C $L/repo reset -q --hard origin/HEAD 2>/dev/null || git -C $L/repo reset -q --hard "$(git -C /repo rev-parse HEAD)"
rsync -a --delete --exclude 'target/' /verif/ $L/verif/
mkdir -p $L/verif/target
unshare -m bash -c "mount --bind $L/repo /repo && mount --bind $L/verif /verif && cd /verif && tools/rerun_seeded.sh $*"

#!/bin/bash
# usage: tools/run_all.sh quick|thorough [IDs...]  — runs the checks one after another, prints one line each
TIER="${1:-quick}"; shift
IDS="${@:-C01 C02 C03 C04 C05 C06 C07 C08 C09 C10 C11 C12 C13 C14 C15 C16 C17 C18 C19}"
cd /verif
for ID in $IDS; do
  S=$(date +%s); OUT=$(./check.sh $ID $TIER 2>&1); RC=$?; E=$(date +%s)
  echo "$ID $TIER rc=$RC t=$((E-S))s :: $(echo "$OUT" | grep "^$ID $TIER:" | tail -1 | cut -c1-180)"
  echo "$OUT" | grep -E "^VIOLATION|MACHINERY" | head -3
done

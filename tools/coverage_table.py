#!/usr/bin/env python3
"""Prints the coverage table of DESIGN.md section 8 from /verif/evidence/*.json (quick tier runs)."""
import json,glob
ENG={"C01":"sweep","C02":"sweep + invariant","C03":"hist","C04":"sweep","C05":"sweep","C06":"sweep","C07":"sweep, supervised","C08":"sweep (histories)","C09":"sweep","C10":"sweep","C11":"sweep","C12":"sweep","C13":"hist","C14":"hist, supervised","C15":"sweep","C16":"sweep","C17":"sweep, process","C18":"sweep + hist, process","C19":"hist"}
def find(o,k):
    if isinstance(o,dict):
        for kk,v in o.items():
            if kk==k: yield v
            yield from find(v,k)
    elif isinstance(o,list):
        for v in o: yield from find(v,k)
def g(e,k):
    for v in find(e,k):
        if isinstance(v,(int,float)): return v
    return None
print("| id | engine | tier | evaluations | states | transitions | violations | known-finding cases | wall |")
print("|---|---|---|---|---|---|---|---|---|")
for f in sorted(glob.glob('/verif/evidence/C*.json')):
    e=json.load(open(f)); i=e['property_id']
    fmt=lambda x: f"{x:,}".replace(","," ") if isinstance(x,int) else str(x)
    print(f"| {i} | {ENG.get(i,'')} | {e.get('tier')} | {fmt(g(e,'evaluations') or g(e,'evals'))} | {fmt(g(e,'states'))} | {fmt(g(e,'transitions'))} | {fmt(g(e,'violations') if isinstance(e.get('violations'),int) else len(e.get('violations',[])))} | {fmt(g(e,'known_finding_cases') or 0)} | {e.get('wall_s')} s |")

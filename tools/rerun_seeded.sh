#!/bin/bash
# usage: tools/rerun_seeded.sh [IDs...] — run the quick check of its property against every seeded change at /repo's HEAD; one line each
cd /verif
HEAD=$(git -C /repo rev-parse --short HEAD)
LIST="${@:-$(ls seeded | grep -E '^C[0-9]{2}-[0-9]+$')}"
for K in $LIST; do
  ID=${K%%-*}
  R=$(tools/try_mutant.sh /verif/seeded/$K/patch.diff $ID 2>&1 | grep -E "^==|PATCH DOES NOT APPLY|REFUSING" | head -1 | cut -c1-200)
  echo "$K @$HEAD $R"
done

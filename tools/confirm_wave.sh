#!/bin/bash
# usage: tools/confirm_wave.sh <ID> <offset> — confirm patch1..3 of /tmp/wt/<ID>-out as seeded/<ID>-(n+offset) (no check is run: see tools/rerun_lanes.sh)
ID="$1"; OFF="$2"
cd /verif
for n in 1 2 3; do
  [ -f /tmp/wt/$ID-out/patch$n.diff ] || continue
  ON=$((n+OFF))
  tools/confirm_mutant.sh $ID $n $ON 2>&1 | tail -2
  [ -f seeded/$ID-$ON/patch.diff ] && cp /tmp/wt/$ID-out/notes.md seeded/$ID-$ON/notes.md 2>/dev/null
done

#!/bin/bash
# usage: tools/try_mutant.sh <patch.diff> <ID> [<ID>...]   — apply a seeded change to /repo, run the quick checks, always revert
set -u
PATCH="$1"; shift
cd /repo || exit 2
if [ -n "$(git status --porcelain)" ]; then echo "REFUSING: /repo working tree not clean"; exit 2; fi
if git apply --check "$PATCH" 2>/tmp/apply.err; then git apply "$PATCH"
elif git apply --3way "$PATCH" 2>>/tmp/apply.err && [ -z "$(git diff --name-only --diff-filter=U)" ]; then git reset -q
else echo "PATCH DOES NOT APPLY"; head -5 /tmp/apply.err; git reset -q --hard HEAD; exit 3; fi
trap 'cd /repo && git checkout -- . && git clean -fdq' EXIT
for ID in "$@"; do
  OUT=$(cd /verif && timeout 900 ./check.sh "$ID" quick 2>&1); RC=$?
  NV=$(echo "$OUT" | grep -c '^VIOLATION')
  echo "== $ID rc=$RC violations_lines=$NV :: $(echo "$OUT" | tail -1 | cut -c1-200)"
  echo "$OUT" | grep -A3 '^VIOLATION' | head -8 | cut -c1-260
done

#!/bin/bash
# usage: tools/try_ns_x.sh <lane-name> <seeded id> <check ids...> — tools/try_mutant.sh for one seeded change against the given
# checks inside a private mount namespace (see tools/try_ns.sh)
L=/tmp/lanew/$1; K=$2; shift 2
mkdir -p $L
[ -d $L/repo ] || git clone -q /repo $L/repo
git -C $L/repo reset -q --hard "$(git -C /repo rev-parse HEAD)" 2>/dev/null
rsync -a --delete --exclude 'target/' /verif/ $L/verif/
mkdir -p $L/verif/target
unshare -m bash -c "mount --bind $L/repo /repo && mount --bind $L/verif /verif && cd /verif && tools/try_mutant.sh /verif/seeded/$K/patch.diff $*" 2>&1 | grep -E "^==|PATCH" | sed "s/^/$K /" | cut -c1-220

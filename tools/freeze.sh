#!/bin/bash
# usage: tools/freeze.sh <dir> — build mc and the ruschm binary (both profiles) from /repo's current tree and copy them to <dir>;
# then: VERIF_FROZEN_DIR=<dir> tools/run_all.sh thorough    (a long run that later rebuilds cannot disturb)
set -e
D="$1"; mkdir -p "$D"
cd /verif/mc
export CARGO_NET_OFFLINE=true RUSTFLAGS="--cfg ruschm_verif"
cargo build --profile verif --offline -q 2>/verif/target/build.log
cargo build --profile verifrel --offline -q 2>/verif/target/build.log
CARGO_TARGET_DIR=/verif/target/repo-bin cargo build --manifest-path /repo/Cargo.toml --bin ruschm --offline -q 2>/verif/target/build-bin.log
CARGO_TARGET_DIR=/verif/target/repo-bin cargo build --manifest-path /repo/Cargo.toml --bin ruschm --release --offline -q 2>/verif/target/build-bin.log
cp /verif/target/verif/mc "$D/mc"; cp /verif/target/verifrel/mc "$D/mc-release"
cp /verif/target/repo-bin/debug/ruschm "$D/ruschm"; cp /verif/target/repo-bin/release/ruschm "$D/ruschm-release"
git -C /repo rev-parse HEAD > "$D/repo-head"; git -C /repo status --porcelain >> "$D/repo-head"
echo "frozen at $(head -1 $D/repo-head)"

#!/bin/bash
# usage: tools/process_wave.sh <ID> <offset> <checks...>  — confirm patch1..3 of /tmp/wt/<ID>-out as seeded/<ID>-(n+offset), then run the checks against each
ID="$1"; OFF="$2"; shift 2
cd /verif
for n in 1 2 3; do
  [ -f /tmp/wt/$ID-out/patch$n.diff ] || continue
  ON=$((n+OFF))
  tools/confirm_mutant.sh $ID $n $ON 2>&1 | tail -2
  if [ -f seeded/$ID-$ON/patch.diff ]; then
    cp /tmp/wt/$ID-out/notes.md seeded/$ID-$ON/notes.md 2>/dev/null
    tools/try_mutant.sh /verif/seeded/$ID-$ON/patch.diff "$@" 2>&1 | grep -E "^==|PATCH" | cut -c1-230
  fi
done

#!/bin/bash
# usage: tools/confirm_mutant.sh <ID> <n> [<n in seeded/>]
# Confirms a seeded change in the scratch worktree /tmp/wt/<ID> (moved to /repo's current HEAD):
#  with the patch: the repository's own tests pass and the demonstration fails; without it: the demonstration passes.
# On success copies patch + demo into /verif/seeded/<ID>-<n>/ and writes confirm.json there.
ID="$1"; N="$2"; ON="${3:-$2}"; WT=/tmp/wt/$ID; OUT=/tmp/wt/$ID-out
cd $WT || exit 2
git reset -q --hard; git clean -fdq -e target
git checkout -q --detach main || exit 2
HEAD=$(git rev-parse --short HEAD)
DEMO=$(ls $OUT/demo$N.* | head -1); EXT="${DEMO##*.}"
run_demo() {
  if [ "$EXT" = "rs" ]; then
    cp $DEMO tests/seeded_demo.rs
    cargo test --offline --test seeded_demo >/tmp/wt/demo-$ID-$N.log 2>&1; RC=$?
    rm -f tests/seeded_demo.rs; return $RC
  else
    cargo build --offline >/dev/null 2>&1; bash $DEMO >/tmp/wt/demo-$ID-$N.log 2>&1
  fi
}
# without patch
run_demo; BASE_DEMO=$?
if ! git apply $OUT/patch$N.diff 2>/tmp/wt/apply-$ID-$N.err; then git reset -q --hard; if ! git apply --3way $OUT/patch$N.diff 2>>/tmp/wt/apply-$ID-$N.err || [ -n "$(git diff --name-only --diff-filter=U)" ]; then echo "$ID-$N: PATCH DOES NOT APPLY at $HEAD"; git reset -q --hard; exit 3; fi; fi
git reset -q
git diff > /tmp/wt/rebased-$ID-$N.diff
cargo test --workspace --no-fail-fast --offline >/tmp/wt/suite-$ID-$N.log 2>&1; SUITE=$?
PASSED=$(grep -E "^test result" /tmp/wt/suite-$ID-$N.log | awk '{s+=$4} END {print s}')
FAILED=$(grep -E "^test result" /tmp/wt/suite-$ID-$N.log | awk '{s+=$6} END {print s}')
run_demo; MUT_DEMO=$?
git reset -q --hard; git clean -fdq -e target
echo "$ID-$N at $HEAD: demo_without_patch_rc=$BASE_DEMO suite_with_patch_rc=$SUITE passed=$PASSED failed=$FAILED demo_with_patch_rc=$MUT_DEMO"
if [ $BASE_DEMO -eq 0 ] && [ $SUITE -eq 0 ] && [ $MUT_DEMO -ne 0 ]; then
  D=/verif/seeded/$ID-$ON; mkdir -p $D
  cp /tmp/wt/rebased-$ID-$N.diff $D/patch.diff; cp $DEMO $D/demo.$EXT
  cat > $D/confirm.json <<JSON
{"repo_head": "$HEAD", "suite_with_patch": {"rc": $SUITE, "passed": $PASSED, "failed": $FAILED}, "demo_without_patch_rc": $BASE_DEMO, "demo_with_patch_rc": $MUT_DEMO,
 "commands": ["cargo test --workspace --no-fail-fast --offline (patch applied)", "cargo test --offline --test seeded_demo (with and without patch)"]}
JSON
  echo "CONFIRMED -> $D"
else
  echo "NOT CONFIRMED"
fi

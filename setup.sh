#!/bin/bash
# Build the verification machinery offline. Run once after a fresh restore.
set -e
cd /verif/mc
export CARGO_NET_OFFLINE=true
export RUSTFLAGS="--cfg ruschm_verif"
cargo build --profile verif --offline 2>&1 | tail -5

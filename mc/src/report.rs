//! Accumulator for a check run, known-findings protocol, VIOLATION / KNOWN-FINDING output,
//! replay files and the evidence writer.
use serde_json::{json, Value as J};
use std::collections::{BTreeMap, HashSet};
use std::hash::{Hash, Hasher};

pub const VERIF: &str = "/verif";

#[derive(Clone, Debug)]
pub struct Mismatch {
    pub idx: u64,
    /// human readable case (program text, operand tuple, history ...)
    pub case: String,
    pub expected: String,
    pub observed: String,
    /// machine payload for `mc replay`
    pub payload: J,
}

#[derive(Default)]
pub struct Acc {
    pub evals: u64,
    pub transitions: u64,
    pub validated: u64,
    pub states: u64,
    pub distinct: HashSet<u64>,
    pub hist: BTreeMap<String, u64>,
    pub violations: Vec<Mismatch>,
    pub n_violations: u64,
    /// entry id -> (count, smallest-index witness)
    pub known: BTreeMap<String, (u64, Option<Mismatch>)>,
    /// class -> (count, example)
    pub excluded: BTreeMap<String, (u64, String)>,
    pub samples: Vec<(u64, J)>,
    pub notes: Vec<String>,
    pub counters: BTreeMap<String, u64>,
    /// violation class (head of case + head of expectation) -> (count, first example)
    pub viol_classes: BTreeMap<String, (u64, String)>,
}

const KEEP_VIOL: usize = 40;

pub fn hash_of<T: Hash>(t: &T) -> u64 {
    let mut h = std::collections::hash_map::DefaultHasher::new();
    t.hash(&mut h);
    h.finish()
}

impl Acc {
    pub fn new() -> Acc {
        Acc::default()
    }
    pub fn count(&mut self, key: &str, n: u64) {
        *self.counters.entry(key.to_string()).or_insert(0) += n;
    }
    pub fn outcome_class(&mut self, class: &str) {
        *self.hist.entry(class.to_string()).or_insert(0) += 1;
    }
    pub fn distinct_hash(&mut self, h: u64) {
        self.distinct.insert(h);
    }
    pub fn exclude(&mut self, class: &str, example: impl FnOnce() -> String) {
        let e = self.excluded.entry(class.to_string()).or_insert_with(|| (0, String::new()));
        if e.0 == 0 {
            e.1 = example();
        }
        e.0 += 1;
    }
    pub fn sample(&mut self, idx: u64, j: J) {
        self.samples.push((idx, j));
    }
    /// A disagreement with the primary oracle. `known` = id of the known_findings entry whose
    /// facets the case carries AND whose defect model reproduces the observed result.
    pub fn mismatch(&mut self, m: Mismatch, known: Option<&str>) {
        match known {
            Some(id) => {
                let e = self.known.entry(id.to_string()).or_insert((0, None));
                e.0 += 1;
                if e.1.as_ref().map(|w| m.idx < w.idx).unwrap_or(true) {
                    e.1 = Some(m);
                }
            }
            None => {
                self.n_violations += 1;
                let head: String = m.case.split(|c: char| c == ' ' || c == '\n').next().unwrap_or("").chars().take(24).collect();
                let exp: String = m.expected.split(|c: char| c == ':' || c.is_ascii_digit()).next().unwrap_or("").chars().take(60).collect();
                let e = self.viol_classes.entry(format!("{} | {}", head, exp)).or_insert((0, String::new()));
                if e.0 == 0 {
                    e.1 = format!("{} => {}", m.case.replace('\n', " "), m.observed);
                }
                e.0 += 1;
                self.violations.push(m);
                if self.violations.len() > 2 * KEEP_VIOL {
                    self.violations.sort_by_key(|v| v.idx);
                    self.violations.truncate(KEEP_VIOL);
                }
            }
        }
    }
    pub fn merge(&mut self, o: Acc) {
        self.evals += o.evals;
        self.transitions += o.transitions;
        self.validated += o.validated;
        self.states += o.states;
        self.distinct.extend(o.distinct);
        for (k, v) in o.hist {
            *self.hist.entry(k).or_insert(0) += v;
        }
        self.n_violations += o.n_violations;
        self.violations.extend(o.violations);
        self.violations.sort_by_key(|v| v.idx);
        self.violations.truncate(KEEP_VIOL);
        for (k, (n, w)) in o.known {
            let e = self.known.entry(k).or_insert((0, None));
            e.0 += n;
            if let Some(w) = w {
                if e.1.as_ref().map(|x| w.idx < x.idx).unwrap_or(true) {
                    e.1 = Some(w);
                }
            }
        }
        for (k, (n, ex)) in o.excluded {
            let e = self.excluded.entry(k).or_insert((0, String::new()));
            if e.0 == 0 {
                e.1 = ex;
            }
            e.0 += n;
        }
        self.samples.extend(o.samples);
        self.notes.extend(o.notes);
        for (k, v) in o.counters {
            *self.counters.entry(k).or_insert(0) += v;
        }
        for (k, (n, ex)) in o.viol_classes {
            let e = self.viol_classes.entry(k).or_insert((0, String::new()));
            if e.0 == 0 {
                e.1 = ex;
            }
            e.0 += n;
        }
    }
}

impl Acc {
    /// lossless dump for passing a partial result from a segment process to its parent
    pub fn to_json(&self) -> J {
        let mm = |m: &Mismatch| json!({"idx": m.idx, "case": m.case, "expected": m.expected, "observed": m.observed, "payload": m.payload});
        json!({
            "evals": self.evals, "transitions": self.transitions, "validated": self.validated, "states": self.states,
            "distinct": self.distinct.iter().collect::<Vec<_>>(),
            "hist": self.hist, "n_violations": self.n_violations,
            "violations": self.violations.iter().map(mm).collect::<Vec<_>>(),
            "known": self.known.iter().map(|(k, (n, w))| json!([k, n, w.as_ref().map(mm)])).collect::<Vec<_>>(),
            "excluded": self.excluded.iter().map(|(k, (n, e))| json!([k, n, e])).collect::<Vec<_>>(),
            "samples": self.samples.iter().map(|(i, j)| json!([i, j])).collect::<Vec<_>>(),
            "notes": self.notes, "counters": self.counters,
            "viol_classes": self.viol_classes.iter().map(|(k, (n, e))| json!([k, n, e])).collect::<Vec<_>>(),
        })
    }
    pub fn from_json(j: &J) -> Option<Acc> {
        let mm = |m: &J| -> Option<Mismatch> {
            Some(Mismatch { idx: m["idx"].as_u64()?, case: m["case"].as_str()?.to_string(), expected: m["expected"].as_str()?.to_string(), observed: m["observed"].as_str()?.to_string(), payload: m["payload"].clone() })
        };
        let mut a = Acc::new();
        a.evals = j["evals"].as_u64()?;
        a.transitions = j["transitions"].as_u64()?;
        a.validated = j["validated"].as_u64()?;
        a.states = j["states"].as_u64()?;
        for d in j["distinct"].as_array()? {
            a.distinct.insert(d.as_u64()?);
        }
        for (k, v) in j["hist"].as_object()? {
            a.hist.insert(k.clone(), v.as_u64()?);
        }
        a.n_violations = j["n_violations"].as_u64()?;
        for v in j["violations"].as_array()? {
            a.violations.push(mm(v)?);
        }
        for e in j["known"].as_array()? {
            a.known.insert(e[0].as_str()?.to_string(), (e[1].as_u64()?, if e[2].is_null() { None } else { Some(mm(&e[2])?) }));
        }
        for e in j["excluded"].as_array()? {
            a.excluded.insert(e[0].as_str()?.to_string(), (e[1].as_u64()?, e[2].as_str()?.to_string()));
        }
        for e in j["samples"].as_array()? {
            a.samples.push((e[0].as_u64()?, e[1].clone()));
        }
        for n in j["notes"].as_array()? {
            a.notes.push(n.as_str()?.to_string());
        }
        for (k, v) in j["counters"].as_object()? {
            a.counters.insert(k.clone(), v.as_u64()?);
        }
        for e in j["viol_classes"].as_array()? {
            a.viol_classes.insert(e[0].as_str()?.to_string(), (e[1].as_u64()?, e[2].as_str()?.to_string()));
        }
        Some(a)
    }
}

pub fn clip(s: &str, n: usize) -> String {
    if s.chars().count() <= n {
        s.to_string()
    } else {
        let t: String = s.chars().take(n).collect();
        format!("{} ...[{} chars]", t, s.chars().count())
    }
}

pub struct KnownEntry {
    pub id: String,
    pub property: String,
    pub status: String,
    pub what: String,
}

pub fn load_known() -> Vec<KnownEntry> {
    let path = format!("{}/known_findings.json", VERIF);
    let txt = match std::fs::read_to_string(&path) {
        Ok(t) => t,
        Err(_) => return vec![],
    };
    let j: J = serde_json::from_str(&txt).expect("known_findings.json is not valid JSON");
    let mut out = vec![];
    for e in j["findings"].as_array().cloned().unwrap_or_default() {
        out.push(KnownEntry {
            id: e["id"].as_str().unwrap_or("").to_string(),
            property: e["property"].as_str().unwrap_or("").to_string(),
            status: e["status"].as_str().unwrap_or("").to_string(),
            what: e["what"].as_str().unwrap_or("").to_string(),
        });
    }
    out
}

pub struct RunInfo {
    pub id: String,
    pub tier: String,
    pub seed: i64,
    pub exhaustive: bool,
    pub rule: String,
    pub bounds: J,
    pub assumptions: Vec<String>,
    pub wall_s: f64,
    pub extra: J,
}

/// Finalise a run: print lines, write replays and evidence. Returns the process exit code.
pub fn finish(mut acc: Acc, info: RunInfo) -> i32 {
    // a second pass of the thorough tier runs the quick space with harness and interpreter built
    // under another profile (no debug assertions, no overflow checks): its replay and evidence
    // files carry the profile's tag
    let tag = std::env::var("MC_PROFILE_TAG").ok().filter(|t| !t.is_empty());
    let tagged = |stem: &str| match &tag {
        Some(t) => format!("{}.{}", stem, t),
        None => stem.to_string(),
    };
    if let Ok(note) = std::env::var("MC_EXTRA_NOTE") {
        if !note.is_empty() {
            acc.notes.push(note);
        }
    }
    if let Some(t) = &tag {
        acc.notes.push(format!("build profile of this pass: {} (debug assertions and overflow checks off)", t));
    }
    let known = load_known();
    let mut out_known = vec![];
    // entries whose defect model fired but which are not listed as open -> violations
    let fired: Vec<(String, (u64, Option<Mismatch>))> =
        std::mem::take(&mut acc.known).into_iter().collect();
    for (id, (n, w)) in fired {
        let listed = known.iter().find(|k| k.id == id && k.property == info.id && k.status == "open");
        match listed {
            Some(k) => out_known.push((id, n, w, k.what.clone())),
            None => {
                if let Some(mut w) = w {
                    w.observed = format!("{} [matches defect model '{}' which is not an open entry of known_findings.json; {} cases]", w.observed, id, n);
                    acc.n_violations += n;
                    acc.violations.push(w);
                }
            }
        }
    }
    acc.violations.sort_by_key(|v| v.idx);
    let _ = std::fs::create_dir_all(format!("{}/replays", VERIF));
    let _ = std::fs::create_dir_all(format!("{}/evidence", VERIF));
    // remove stale replays of this property
    if let Ok(rd) = std::fs::read_dir(format!("{}/replays", VERIF)) {
        for e in rd.flatten() {
            let n = e.file_name().to_string_lossy().to_string();
            if n.starts_with(&format!("{}-", tagged(&info.id))) {
                let _ = std::fs::remove_file(e.path());
            }
        }
    }
    let mut viol_json = vec![];
    for (i, v) in acc.violations.iter().take(10).enumerate() {
        let path = format!("{}/replays/{}-{}.json", VERIF, tagged(&info.id), i);
        let j = json!({
            "property": info.id, "case": v.case, "expected": v.expected, "observed": v.observed,
            "index": v.idx, "payload": v.payload, "profile": tag.clone().unwrap_or_default(),
        });
        let _ = std::fs::write(&path, serde_json::to_string_pretty(&j).unwrap());
        println!("VIOLATION property={} replay={}", info.id, path);
        println!("  case: {}", clip(&v.case, 1500).replace('\n', "\n        "));
        println!("  expected: {}", clip(&v.expected, 1500));
        println!("  observed: {}", clip(&v.observed, 1500));
        viol_json.push(j);
    }
    if acc.n_violations > 0 {
        for (k, (n, ex)) in &acc.viol_classes {
            println!("  class [{}] x{}  e.g. {}", k, n, clip(ex, 300));
        }
    }
    if acc.n_violations > 10 {
        println!("  ... {} violating cases in total (first 10 written)", acc.n_violations);
    }
    let mut known_json = vec![];
    for (id, n, w, what) in &out_known {
        let wit = w.as_ref().map(|w| format!("{} => {} (expected {})", clip(&w.case.replace('\n', " "), 600), clip(&w.observed, 400), clip(&w.expected, 400))).unwrap_or_default();
        println!("KNOWN-FINDING: property={} {} [{}] cases={} witness: {}", info.id, id, what, n, wit);
        known_json.push(json!({"entry": id, "cases": n, "witness": wit}));
    }
    // samples: first, middle, last by index + up to 3 more
    acc.samples.sort_by_key(|s| s.0);
    let mut samples: Vec<J> = vec![];
    if !acc.samples.is_empty() {
        let n = acc.samples.len();
        let mut picks = vec![0, n / 2, n - 1, n / 4, 3 * n / 4];
        picks.sort();
        picks.dedup();
        for p in picks {
            samples.push(acc.samples[p].1.clone());
        }
    }
    for v in viol_json.iter().take(3) {
        samples.push(v.clone());
    }
    let distinct = acc.distinct.len() as u64;
    let states = if acc.states > 0 { acc.states } else { distinct.max(1) };
    let transitions = if acc.transitions > 0 { acc.transitions } else { acc.evals.max(1) };
    let validated = if acc.validated > 0 { acc.validated } else { acc.evals };
    let excluded: BTreeMap<String, J> = acc
        .excluded
        .iter()
        .map(|(k, (n, ex))| (k.clone(), json!({"count": n, "example": ex})))
        .collect();
    let ev = json!({
        "property_id": info.id,
        "tier": info.tier,
        "seed": info.seed,
        "level": "model_checking",
        "coverage": {
            "states": states,
            "transitions": transitions,
            "traces_validated_against_impl": validated,
            "evaluations": acc.evals,
            "distinct_nontrivial": distinct,
            "rule": info.rule,
            "samples": samples,
            "exhaustive": info.exhaustive,
            "bounds": info.bounds,
            "outcome_histogram": acc.hist,
            "excluded": excluded,
            "known_findings": known_json,
            "counters": acc.counters,
            "notes": acc.notes,
            "extra": info.extra,
        },
        "assumptions": info.assumptions,
        "wall_s": info.wall_s,
        "violations": acc.n_violations,
    });
    let path = format!("{}/evidence/{}.json", VERIF, tagged(&info.id));
    std::fs::write(&path, serde_json::to_string_pretty(&ev).unwrap()).expect("write evidence");
    println!(
        "{} {}{}: evaluations={} states={} transitions={} distinct={} violations={} known-finding-cases={} wall={:.1}s",
        info.id,
        info.tier,
        tag.as_ref().map(|t| format!(" [{} profile]", t)).unwrap_or_default(),
        acc.evals,
        states,
        transitions,
        distinct,
        acc.n_violations,
        out_known.iter().map(|k| k.1).sum::<u64>(),
        info.wall_s
    );
    if acc.n_violations > 0 {
        1
    } else {
        0
    }
}

//! E-hist: explicit-state breadth-first exploration of operation histories.
//! A state is identified by the canonical state of the REFERENCE MODEL reached by a history; every
//! transition (state, operation) is executed on the real implementation by replaying the history
//! on a fresh instance (a live interpreter is an Rc graph and cannot be cloned) and compared with
//! the reference; new model states join the frontier. Deterministic: results are merged in
//! (state index, operation index) order, so the first counterexample is a shortest one.
use crate::par;
use crate::report::{Acc, Mismatch};
use serde_json::json;
use std::collections::HashSet;

pub struct StepResult {
    /// canonical key (hash) of the model state after the transition
    pub key: u64,
    /// hash of the complete implementation observation (for the distinct-outcome count)
    pub obs_hash: u64,
    pub class: String,
    pub mismatch: Option<(String, String)>,
    pub known: Option<&'static str>,
}

pub trait System: Sync {
    type Worker;
    fn new_worker(&self) -> Self::Worker;
    fn n_ops(&self) -> usize;
    fn op_name(&self, op: usize) -> String;
    /// canonical key of the initial model state
    fn initial_key(&self, w: &mut Self::Worker) -> u64;
    /// replay `history` then `op` on a fresh implementation instance and a fresh reference
    fn step(&self, w: &mut Self::Worker, history: &[u16], op: u16) -> StepResult;
}

pub struct Exploration {
    pub acc: Acc,
    pub states_per_depth: Vec<u64>,
    pub completed_depth: usize,
    pub capped: bool,
}

pub fn history_text<S: System>(sys: &S, h: &[u16]) -> String {
    h.iter().map(|o| sys.op_name(*o as usize)).collect::<Vec<_>>().join("\n")
}

pub fn bfs<S: System>(sys: &S, max_depth: usize, max_transitions: u64, prop: &str) -> Exploration {
    let mut acc = Acc::new();
    let mut seen: HashSet<u64> = HashSet::new();
    // the initial state is the empty history; its key is irrelevant for deduplication because
    // every transition back to it is recognised through `seen` after the first level
    seen.insert(sys.initial_key(&mut sys.new_worker()));
    let mut frontier: Vec<Vec<u16>> = vec![vec![]];
    let mut states_per_depth = vec![1u64];
    let nops = sys.n_ops();
    let mut completed = 0;
    let mut capped = false;
    let mut sample_every = 1usize;
    for depth in 0..max_depth {
        let n = frontier.len() * nops;
        if acc.transitions + n as u64 > max_transitions {
            capped = true;
            break;
        }
        let fr = &frontier;
        let results = par::pmap(n, 8, |_| sys.new_worker(), |w, i| sys.step(w, &fr[i / nops], (i % nops) as u16));
        let mut next: Vec<Vec<u16>> = vec![];
        for (i, r) in results.into_iter().enumerate() {
            let (si, op) = (i / nops, i % nops);
            acc.transitions += 1;
            acc.evals += 1;
            acc.validated += 1;
            acc.outcome_class(&r.class);
            acc.distinct_hash(r.obs_hash);
            let mut h = frontier[si].clone();
            h.push(op as u16);
            if i % sample_every == 0 && acc.samples.len() < 40 {
                acc.sample(acc.transitions, json!({"history": h.iter().map(|o| sys.op_name(*o as usize)).collect::<Vec<_>>(), "outcome": r.class}));
                sample_every = sample_every * 3 + 1;
            }
            if let Some((exp, obs)) = r.mismatch {
                acc.mismatch(
                    Mismatch {
                        idx: acc.transitions,
                        case: history_text(sys, &h),
                        expected: exp,
                        observed: obs,
                        payload: json!({"property": prop, "history": h, "ops": h.iter().map(|o| sys.op_name(*o as usize)).collect::<Vec<_>>()}),
                    },
                    r.known,
                );
                // a state reached through a violating transition is not expanded further: its
                // futures are not meaningful for the model
                if r.known.is_none() {
                    continue;
                }
            }
            if seen.insert(r.key) {
                next.push(h);
            }
        }
        completed = depth + 1;
        states_per_depth.push(next.len() as u64);
        frontier = next;
        if frontier.is_empty() {
            break;
        }
    }
    acc.states = seen.len() as u64;
    Exploration { acc, states_per_depth, completed_depth: completed, capped }
}

//! `mc` — bounded exhaustive exploration of the real ruschm interpreter (see /verif/DESIGN.md).
pub mod drive;
pub mod enumerate;
pub mod explore;
pub mod numgrid;
pub mod par;
pub mod props;
pub mod refnum;
pub mod reflex;
pub mod refsem;
pub mod refsyn;
pub mod report;
pub mod sexp;
pub mod supervise;

use std::time::Instant;

/// Counting allocator: live bytes per thread (a const-initialised thread-local Cell without
/// destructor, so it is usable inside the allocator). Read by C02's `probe`.
pub struct CountingAlloc;
thread_local! {
    pub static LIVE_BYTES: std::cell::Cell<isize> = const { std::cell::Cell::new(0) };
}
unsafe impl std::alloc::GlobalAlloc for CountingAlloc {
    unsafe fn alloc(&self, l: std::alloc::Layout) -> *mut u8 {
        let p = std::alloc::System.alloc(l);
        if !p.is_null() {
            let _ = LIVE_BYTES.try_with(|c| c.set(c.get() + l.size() as isize));
        }
        p
    }
    unsafe fn dealloc(&self, p: *mut u8, l: std::alloc::Layout) {
        std::alloc::System.dealloc(p, l);
        let _ = LIVE_BYTES.try_with(|c| c.set(c.get() - l.size() as isize));
    }
    unsafe fn realloc(&self, p: *mut u8, l: std::alloc::Layout, new_size: usize) -> *mut u8 {
        let q = std::alloc::System.realloc(p, l, new_size);
        if !q.is_null() {
            let _ = LIVE_BYTES.try_with(|c| c.set(c.get() + new_size as isize - l.size() as isize));
        }
        q
    }
}
#[global_allocator]
static GLOBAL: CountingAlloc = CountingAlloc;

#[derive(Clone, Copy, PartialEq, Eq, Debug)]
pub enum Tier {
    Quick,
    Thorough,
}

pub struct Ctx {
    pub id: String,
    pub tier: Tier,
    pub seed: i64,
    pub start: Instant,
}

impl Ctx {
    pub fn thorough(&self) -> bool {
        self.tier == Tier::Thorough
    }
    pub fn tier_name(&self) -> String {
        match self.tier {
            Tier::Quick => "quick".into(),
            Tier::Thorough => "thorough".into(),
        }
    }
    pub fn elapsed(&self) -> f64 {
        self.start.elapsed().as_secs_f64()
    }
}

fn usage() -> ! {
    eprintln!("usage: mc check <ID> --tier quick|thorough\n       mc replay <path>");
    std::process::exit(2)
}

/// the property a `check` run is about (for verdicts raised outside the normal report path)
pub static CURRENT_ID: std::sync::OnceLock<String> = std::sync::OnceLock::new();

fn main() {
    let args: Vec<String> = std::env::args().collect();
    // glibc per-thread arenas grow and trim with mprotect(); with 16 allocation-heavy workers this
    // serialises on the address-space lock. Keep freed memory instead.
    unsafe {
        libc::mallopt(libc::M_TRIM_THRESHOLD, 1 << 30);
        libc::mallopt(libc::M_TOP_PAD, 64 << 20);
        libc::mallopt(libc::M_MMAP_THRESHOLD, 1 << 30);
    }
    drive::install_panic_hook();
    if args.len() < 3 {
        usage();
    }
    match args[1].as_str() {
        "check" => {
            let id = args[2].clone();
            let _ = CURRENT_ID.set(id.clone());
            let mut tier = match std::env::var("VERIF_TIER").as_deref() {
                Ok("thorough") => Tier::Thorough,
                _ => Tier::Quick,
            };
            let mut i = 3;
            while i < args.len() {
                if args[i] == "--tier" && i + 1 < args.len() {
                    tier = match args[i + 1].as_str() {
                        "quick" => Tier::Quick,
                        "thorough" => Tier::Thorough,
                        _ => usage(),
                    };
                    i += 1;
                }
                i += 1;
            }
            let seed = std::env::var("VERIF_SEED").ok().and_then(|s| s.parse().ok()).unwrap_or(0);
            let ctx = Ctx { id: id.clone(), tier, seed, start: Instant::now() };
            let code = props::run(&ctx);
            supervise::remove_frozen_exe();
            // scratch directories of this check's (possibly killed) worker processes
            if let Ok(rd) = std::fs::read_dir("/verif/target/scratch") {
                let prefix = format!("{}-", id.to_lowercase());
                for e in rd.flatten() {
                    let name = e.file_name().to_string_lossy().to_string();
                    if let Some(rest) = name.strip_prefix(&prefix) {
                        // <id>-<pid>[-...]: leave the directories of processes that are still alive
                        // (another run of the same check)
                        let pid: String = rest.chars().skip_while(|c| !c.is_ascii_digit()).take_while(|c| c.is_ascii_digit()).collect();
                        let alive = !pid.is_empty() && pid != std::process::id().to_string() && std::path::Path::new(&format!("/proc/{}", pid)).exists();
                        if !alive {
                            let _ = std::fs::remove_dir_all(e.path());
                        }
                    }
                }
            }
            std::process::exit(code);
        }
        "replay" => {
            let txt = std::fs::read_to_string(&args[2]).unwrap_or_else(|e| {
                eprintln!("cannot read {}: {}", args[2], e);
                std::process::exit(2)
            });
            let j: serde_json::Value = serde_json::from_str(&txt).expect("replay file is not JSON");
            let id = j["property"].as_str().unwrap_or("").to_string();
            let _ = CURRENT_ID.set(id.clone());
            if j["payload"]["kind"] == "setup" {
                // a precondition of the check failed: it fails again (or not) as soon as the check starts
                let ctx = Ctx { id: id.clone(), tier: Tier::Quick, seed: 0, start: Instant::now() };
                std::process::exit(props::run(&ctx));
            }
            let still = props::replay(&id, &j["payload"]);
            if still {
                println!("VIOLATION property={} replay={}", id, args[2]);
                std::process::exit(1);
            } else {
                println!("replay of {}: does not violate", args[2]);
                std::process::exit(0);
            }
        }
        "worker" => {
            match args[2].as_str() {
                "C01" => props::c01::worker(&args[2..]),
                "C07" => props::c07::worker(&args[2..]),
                "C13" => props::c13::worker(&args[2..]),
                "C14" => props::c14::worker(&args[2..]),
                "C18" => props::c18::worker(&args[2..]),
                other => {
                    eprintln!("unknown worker {}", other);
                    std::process::exit(2)
                }
            }
        }
        "leaktest" => {
            fn rss() -> u64 {
                let s = std::fs::read_to_string("/proc/self/statm").unwrap();
                s.split_whitespace().nth(1).unwrap().parse::<u64>().unwrap() * 4
            }
            let which = args[2].as_str();
            let mut w = props::c01::new_worker();
            let forms = sexp::parse_all("(define (tf a) (- a 1)) (tf (tick 1 2))");
            let r0 = rss();
            for _ in 0..20000 {
                match which {
                    "ref" => {
                        let mut m = refsem::Machine::new(refsem::POLICIES[0]);
                        for f in sexp::parse_all(props::c01::PRELUDE) {
                            m.eval_top(&f).unwrap();
                        }
                        for f in &forms {
                            let _ = m.eval_top(f);
                        }
                    }
                    "impl" => {
                        w.it.fresh_frame();
                        for f in &forms {
                            let _ = w.it.eval_traced(&f.to_string());
                        }
                    }
                    "implexpr" => {
                        let _ = w.it.eval_traced("(- 2 1)");
                    }
                    _ => {}
                }
            }
            println!("{}: rss grew {} KB over 20000 iterations", which, rss() - r0);
        }
        _ => usage(),
    }
}

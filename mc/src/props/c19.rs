//! C19 — interpreter instances are isolated from one another.
//! E-hist: for every pair of programs (A, B) from two pools with colliding names and every
//! interleaving of A's forms on instance 1 with B's forms on instance 2 (one fresh thread per
//! execution), B's and A's per-form results must equal those of the program run alone on a new
//! thread; after every step a third instance is created and must work.
use crate::drive::{guarded, on_fresh_thread, Interp, Outcome};
use crate::report::{self, hash_of, Acc, Mismatch, RunInfo};
use crate::{par, Ctx};
use serde_json::json;

pub fn pool(tag: &str, thorough: bool) -> Vec<Vec<String>> {
    let t = tag;
    let mut p: Vec<Vec<String>> = vec![
        vec![format!("(define x '{})", t), "(set! x (list x x))".into(), "x".into()],
        vec![format!("(define (f) '{})", t), "(f)".into(), "(define y (f))".into()],
        vec!["(define c ((lambda () (define n 0) (lambda () (set! n (+ n 1)) n))))".into(), "(c)".into(), "(c)".into()],
        vec!["(define v (vector 0))".into(), format!("(vector-set! v 0 '{})", t), "v".into()],
        vec![format!("(define-syntax my (syntax-rules () ((my a) (list '{} a))))", t), "(my 1)".into(), "(my (my 2))".into()],
        vec![format!("(define-syntax cond (syntax-rules () ((cond a ...) '{}-cond)))", t), "(cond (#f 1) (else 2))".into(), "(let ((k 1)) (cond ((= k 1) 'one)))".into()],
        vec![format!("(define-syntax when (syntax-rules () ((when a ...) '{}-when)))", t), "(when #f 1)".into(), "(unless #f 'u)".into()],
        vec![format!("(define-syntax let (syntax-rules () ((let a ...) '{}-let)))", t), "(let ((q 1)) q)".into(), "(or #f 5)".into()],
        vec!["(import (nolib))".into(), "(car '(1 2))".into(), "(import (scheme base))".into()],
        vec!["(import (util config))".into(), "(config-value)".into(), "(list (config-value) x)".into()],
        vec!["(car '())".into(), "(undefined-thing)".into(), "(+ 1 2)".into()],
        // a step that evaluates a program FILE of the instance's own directory
        vec!["FILE:file-step.scm".into(), "fv".into(), "(config-value)".into()],
        // macro definitions inside LIBRARY bodies (a file library of the instance's own directory,
        // and a define-library form met in program text): they belong to that library
        vec!["(import (util macros))".into(), "(list mval (when #t 'w))".into(), "(leak)".into()],
        vec![format!("(define-library (inline lib) (export iv) (begin (define-syntax unless (syntax-rules () ((unless a ...) 'hijacked-{}))) (define-syntax leak (syntax-rules () ((leak) 'leaked-{}))) (define iv 1)))", t, t), "(unless #f 'u)".into(), "(leak)".into()],
        vec!["(let ((a 1)) (cond ((= a 1) 'one) (else 'other)))".into(), "(when #t 'w)".into(), "(my 3)".into()],
        vec!["(and 1 (or #f 2) (case 2 ((1) 'a) ((2) 'b) (else 'c)))".into(), "(let* ((a 1) (b (+ a 1))) (list a b))".into(), "x".into()],
    ];
    if thorough {
        p.extend(vec![
            vec![format!("(define-syntax or (syntax-rules () ((or a ...) '{}-or)))", t), "(or 1 2)".into(), "(cond (#f 1) (2))".into(), "(my 1)".into()],
            vec![format!("(define car (lambda (p) '{}-car))", t), "(car '(1))".into(), "(cadr '(1 2))".into(), "(map car '((1) (2)))".into()],
            vec!["(define-syntax my (syntax-rules () ((my a) a)))".into(), "(define-syntax my2 (syntax-rules () ((my2 a) (my a))))".into(), "(my2 7)".into(), "(my 8)".into()],
            vec!["(define l (list 1 2))".into(), "(set! l (cons 0 l))".into(), "(apply + l)".into(), "(fold-left + 0 l)".into()],
        ]);
    }
    p
}

/// all interleavings of a steps of program 1 and b steps of program 2 (true = step of program 1)
pub fn interleavings(a: usize, b: usize) -> Vec<Vec<bool>> {
    fn go(a: usize, b: usize, cur: &mut Vec<bool>, out: &mut Vec<Vec<bool>>) {
        if a == 0 && b == 0 {
            out.push(cur.clone());
            return;
        }
        if a > 0 {
            cur.push(true);
            go(a - 1, b, cur, out);
            cur.pop();
        }
        if b > 0 {
            cur.push(false);
            go(a, b - 1, cur, out);
            cur.pop();
        }
    }
    let mut out = vec![];
    go(a, b, &mut vec![], &mut out);
    out
}

/// each instance has its own program directory holding a library (util config) of different content
pub fn dirs() -> (std::path::PathBuf, std::path::PathBuf) {
    let base = std::path::PathBuf::from(format!("/verif/target/scratch/c19-{}", std::process::id()));
    (base.join("dir-a"), base.join("dir-b"))
}

/// written once, before any execution starts (executions only read)
pub fn setup_dirs() -> (std::path::PathBuf, std::path::PathBuf) {
    let (da, db) = dirs();
    for (d, tag) in [(&da, "A"), (&db, "B")] {
        let _ = std::fs::create_dir_all(d.join("util"));
        let _ = std::fs::write(d.join("util/config.sld"), format!("(define-library (util config) (export config-value) (begin (define (config-value) 'config-of-{})))\n", tag));
        let _ = std::fs::write(d.join("file-step.scm"), "(import (util config))\n(define fv (list 'file (config-value)))\n");
        let _ = std::fs::write(
            d.join("util/macros.sld"),
            format!("(define-library (util macros) (export mval) (import (scheme base)) (begin (define-syntax when (syntax-rules () ((when a ...) 'lib-when-{0}))) (define-syntax leak (syntax-rules () ((leak) 'leaked-{0}))) (define mval (when #t 1))))\n", tag),
        );
    }
    (da, db)
}

/// forms that fail (at expansion time, at run time, while importing); repeated N times through
/// one instance they must not change anything observed through another
pub const FAILING: &[&str] = &["(cond)", "(when)", "(let ((p 1)))", "(car '())", "(undefined-thing 1)", "(if)", "(vector-ref (vector) 0)", "((lambda (a) a))",
    // macro uses that match a rule and whose EXPANSION is rejected (at depth 1, and nested in valid uses)
    "(let ((x 1)) (define y x))", "(when #t (let ((x 1)) (define y x)))", "(let ((a 1)) (cond (a (let ((b 2)) (define c b)))))", "(let ((v 1)) (if))", "(begin (lambda))", "(let* ((a 1) (b a)) (define-syntax))"];
pub const REPEATS: &[usize] = &[1, 8, 63, 64, 65, 200, 1000];

const THIRD_INSTANCE_FORM: &str = "(let ((q 1)) (cond ((= q 1) (when #t (list 'third (or #f q))))))";
const THIRD_INSTANCE_VALUE: &str = "(third 1)";

fn strip_location(o: &Outcome) -> String {
    match o {
        Outcome::Err(k, _) => format!("error {:?}", k),
        other => format!("{}", other),
    }
}

/// one step of a program on an instance: a form, or (prefix FILE:) a program file of the instance's
/// directory run with eval_file
fn step_eval(it: &mut Interp, form: &str, dir: &std::path::Path) -> Outcome {
    match form.strip_prefix("FILE:") {
        None => it.eval(form),
        Some(name) => {
            // (written once by setup_dirs, before any execution starts)
            let p = dir.join(name);
            let i = &mut it.it;
            match guarded(|| i.eval_file(p)) {
                Ok(Ok(Some(v))) => Outcome::Val(crate::drive::obs_of(&v)),
                Ok(Ok(None)) => Outcome::Val(crate::drive::Obs::NoValue),
                Ok(Err(e)) => Outcome::Err(crate::drive::classify(&e), e.location),
                Err(p) => Outcome::Panic(p),
            }
        }
    }
}

/// program alone on a new thread
pub fn alone(prog: &[String], dir: &std::path::Path) -> Vec<String> {
    let p = prog.to_vec();
    let dir = dir.to_path_buf();
    on_fresh_thread(move || {
        let mut it = Interp::must_new();
        it.it.program_directory = Some(dir.clone());
        p.iter().map(|f| strip_location(&step_eval(&mut it, f, &dir))).collect()
    })
}

pub struct Run {
    pub a_results: Vec<String>,
    pub b_results: Vec<String>,
    pub third_failures: Vec<String>,
    pub invariant_failures: Vec<String>,
}

pub fn interleaved(a: &[String], b: &[String], order: &[bool]) -> Run {
    interleaved_thin(a, b, order, 1)
}

/// like `interleaved`, creating the third instance only after every `every`-th step and the last one
pub fn interleaved_thin(a: &[String], b: &[String], order: &[bool], every: usize) -> Run {
    let (a, b, order) = (a.to_vec(), b.to_vec(), order.to_vec());
    let (da, db) = dirs();
    on_fresh_thread(move || {
        let mut i1 = Interp::must_new();
        let mut i2 = Interp::must_new();
        i1.it.program_directory = Some(da.clone());
        i2.it.program_directory = Some(db.clone());
        // process-wide state an instance must leave alone
        let cwd = std::env::current_dir().ok();
        let (mut ra, mut rb) = (vec![], vec![]);
        let (mut tf, mut inv) = (vec![], vec![]);
        let (mut ia, mut ib) = (0, 0);
        for (step, first) in order.iter().enumerate() {
            if *first {
                ra.push(strip_location(&step_eval(&mut i1, &a[ia], &da)));
                ia += 1;
            } else {
                rb.push(strip_location(&step_eval(&mut i2, &b[ib], &db)));
                ib += 1;
            }
            if std::env::current_dir().ok() != cwd {
                inv.push(format!("after step {}: the working directory of the process changed from {:?} to {:?}", step + 1, cwd, std::env::current_dir().ok()));
                if let Some(c) = &cwd {
                    let _ = std::env::set_current_dir(c);
                }
            }
            // H2 on both instances
            for (name, it) in [("instance 1", &i1), ("instance 2", &i2)] {
                let ip = it.it.verif_in_progress();
                if !ip.is_empty() {
                    inv.push(format!("after step {}: {} has libraries marked in progress: {:?}", step + 1, name, ip));
                }
            }
            if (step + 1) % every != 0 && step + 1 != order.len() {
                continue;
            }
            // creating (and using) a new instance always succeeds
            match guarded(|| Interp::new()) {
                Ok(Ok(mut i3)) => {
                    let o = strip_location(&i3.eval(THIRD_INSTANCE_FORM));
                    if o != THIRD_INSTANCE_VALUE {
                        tf.push(format!("after step {}: a new instance evaluates {} to {}", step + 1, THIRD_INSTANCE_FORM, o));
                    }
                }
                Ok(Err(p)) | Err(p) => tf.push(format!("after step {}: creating a new instance panicked: {}", step + 1, p)),
            }
        }
        Run { a_results: ra, b_results: rb, third_failures: tf, invariant_failures: inv }
    })
}

pub fn run(ctx: &Ctx) -> i32 {
    let pa = pool("A", ctx.thorough());
    let pb = pool("B", ctx.thorough());
    let (da, db) = setup_dirs();
    let alone_a: Vec<Vec<String>> = pa.iter().map(|p| alone(p, &da)).collect();
    let alone_b: Vec<Vec<String>> = pb.iter().map(|p| alone(p, &db)).collect();
    // work items: (a, b, interleaving)
    let mut items = vec![];
    for (ai, a) in pa.iter().enumerate() {
        for (bi, b) in pb.iter().enumerate() {
            for o in interleavings(a.len(), b.len()) {
                items.push((ai, bi, o));
            }
        }
    }
    let total = items.len() as u64;
    let (itr, par_, pbr, aar, abr) = (&items, &pa, &pb, &alone_a, &alone_b);
    let silencer = crate::drive::StdoutSilencer::new();
    let mut acc = par::sweep(
        total,
        4,
        |_| (),
        |_, acc: &mut Acc, i| {
            let (ai, bi, order) = &itr[i as usize];
            let r = interleaved(&par_[*ai], &pbr[*bi], order);
            acc.evals += 1;
            acc.transitions += order.len() as u64;
            acc.distinct_hash(hash_of(&(&r.a_results, &r.b_results)));
            acc.outcome_class(if r.third_failures.is_empty() { "third instance fine" } else { "third instance failed" });
            let sched: String = order.iter().map(|f| if *f { 'A' } else { 'B' }).collect();
            if i % (total / 5 + 1) == 1 {
                acc.sample(i, json!({"A": par_[*ai], "B": pbr[*bi], "schedule": sched, "B results": r.b_results}));
            }
            let mut problems = vec![];
            if r.b_results != abr[*bi] {
                problems.push(format!("B's results {:?} differ from B alone {:?}", r.b_results, abr[*bi]));
            }
            if r.a_results != aar[*ai] {
                problems.push(format!("A's results {:?} differ from A alone {:?}", r.a_results, aar[*ai]));
            }
            problems.extend(r.third_failures.iter().cloned());
            problems.extend(r.invariant_failures.iter().cloned());
            if !problems.is_empty() {
                acc.mismatch(
                    Mismatch {
                        idx: i,
                        case: format!("A (instance 1): {}\nB (instance 2): {}\nschedule: {}", par_[*ai].join(" "), pbr[*bi].join(" "), sched),
                        expected: ": each program's results as when run alone on a new thread; every new instance works".into(),
                        observed: problems.join(" ; "),
                        payload: json!({"a": par_[*ai], "b": pbr[*bi], "order": order}),
                    },
                    None,
                );
            }
        },
    );
    // ladder: a failing form repeated N times through instance 1, then B through instance 2
    let mut ladder = vec![];
    for f in FAILING {
        for n in REPEATS {
            for bi in [0usize, 4, 10, 11, 12] {
                ladder.push((f.to_string(), *n, bi.min(pb.len() - 1)));
            }
        }
    }
    let lr = &ladder;
    let lacc = par::sweep(
        ladder.len() as u64,
        1,
        |_| (),
        |_, acc: &mut Acc, i| {
            let (f, n, bi) = &lr[i as usize];
            let a: Vec<String> = std::iter::repeat(f.clone()).take(*n).collect();
            let mut order = vec![true; *n];
            order.extend(vec![false; pbr[*bi].len()]);
            // the third instance is created after every step: thin it out for the long ladders
            let r = interleaved_thin(&a, &pbr[*bi], &order, (*n / 8).max(1));
            acc.evals += 1;
            acc.transitions += order.len() as u64;
            acc.count("ladder", 1);
            let mut problems = vec![];
            if r.b_results != abr[*bi] {
                problems.push(format!("B's results {:?} differ from B alone {:?}", r.b_results, abr[*bi]));
            }
            problems.extend(r.third_failures.iter().cloned());
            problems.extend(r.invariant_failures.iter().cloned());
            if !problems.is_empty() {
                acc.mismatch(
                    Mismatch { idx: total + i, case: format!("A (instance 1): {} repeated {} times\nB (instance 2): {}", f, n, pbr[*bi].join(" ")), expected: ": B's results as when run alone; every new instance works".into(), observed: problems.join(" ; "), payload: json!({"a": a, "b": pbr[*bi], "order": order}) },
                    None,
                );
            }
        },
    );
    acc.merge(lacc);
    drop(silencer);
    let _ = std::fs::remove_dir_all(format!("/verif/target/scratch/c19-{}", std::process::id()));
    acc.states = acc.distinct.len() as u64;
    report::finish(
        acc,
        RunInfo {
            id: "C19".into(),
            tier: ctx.tier_name(),
            seed: ctx.seed,
            exhaustive: true,
            rule: format!("every pair of programs from two pools of {} (definitions, assignments, closures with state, vector mutation, define-syntax of a new keyword / of the same keyword / of bundled keywords cond, when, let, failing imports, run-time errors, uses of derived forms, import of a same-named file library from per-instance program directories) x every interleaving of A's forms on instance 1 with B's forms on instance 2 on one fresh thread; after every step a third instance is created and evaluates a form using let/cond/when/or; plus a ladder: each of {} failing forms repeated N in {:?} times through instance 1 before B runs on instance 2; transitions = steps; states = distinct result vectors", pa.len(), FAILING.len(), REPEATS),
            bounds: json!({"pairs": pa.len() * pb.len(), "executions": total, "forms_per_program": pa.iter().map(|p| p.len()).max()}),
            assumptions: vec!["'alone' = the same program on a new thread and a new instance".into()],
            wall_s: ctx.elapsed(),
            extra: json!({"third_instance_form": THIRD_INSTANCE_FORM}),
        },
    )
}

pub fn replay(p: &serde_json::Value) -> bool {
    let a: Vec<String> = p["a"].as_array().unwrap().iter().map(|x| x.as_str().unwrap().to_string()).collect();
    let b: Vec<String> = p["b"].as_array().unwrap().iter().map(|x| x.as_str().unwrap().to_string()).collect();
    let order: Vec<bool> = p["order"].as_array().unwrap().iter().map(|x| x.as_bool().unwrap()).collect();
    let _s = crate::drive::StdoutSilencer::new();
    let (da, db) = setup_dirs();
    let r = interleaved(&a, &b, &order);
    let (aa, ab) = (alone(&a, &da), alone(&b, &db));
    drop(_s);
    println!("A {:?}\nB {:?}\norder {:?}\nA results {:?} (alone {:?})\nB results {:?} (alone {:?})\nthird instance: {:?}", a, b, order, r.a_results, aa, r.b_results, ab, r.third_failures);
    r.a_results != aa || r.b_results != ab || !r.third_failures.is_empty() || !r.invariant_failures.is_empty()
}

//! C04 — syntax-rules expansion selects the first matching rule and fills its template.
//! E-sweep: every rule (set) of bounded size over a small alphabet against every use of bounded
//! size. Each rule set is installed through the real parser (define-syntax); every use is pushed
//! through the real `Transformer::transform` and (lower level) evaluated as `(m ...)` text.
use crate::drive::{guarded, Interp, Outcome};
use crate::refsem::{rmatch, Machine, POLICIES};
use crate::refsyn::{Expansion, Rules};
use crate::report::{self, hash_of, Acc, Mismatch, RunInfo};
use crate::sexp::{quote, sym, Sx};
use crate::{par, Ctx};
use ruschm::error::ErrorData;
use ruschm::parser::error::SyntaxError;
use ruschm::parser::pair::GenericPair;
use ruschm::parser::{Datum, DatumBody, Primitive, Transformer};
use ruschm::values::Value;
use serde_json::json;
use std::collections::BTreeSet;

// ---------------------------------------------------------------------------------------------
// pattern / use enumeration by node count

#[derive(Clone, Debug)]
pub enum Pe {
    Var,
    Under,
    Lit,
    One,
    True,
    List(Vec<Pe>, bool),
    Vect(Vec<Pe>, bool),
}

fn pe_atoms() -> Vec<Pe> {
    vec![Pe::Var, Pe::Under, Pe::Lit, Pe::One, Pe::True]
}

/// all sequences of 0..=maxlen pattern elements with exactly `n` nodes in total
fn pe_seqs(n: usize, maxlen: usize, depth: usize, under_ell: bool) -> Vec<Vec<Pe>> {
    if maxlen == 0 || n == 0 {
        return if n == 0 { vec![vec![]] } else { vec![] };
    }
    let mut out = vec![];
    if n == 0 {
        out.push(vec![]);
    }
    for first in 1..=n {
        for head in pes(first, depth, under_ell) {
            for rest in pe_seqs(n - first, maxlen - 1, depth, under_ell) {
                let mut s = vec![head.clone()];
                s.extend(rest);
                out.push(s);
            }
        }
    }
    out
}

/// all pattern elements with exactly `n` nodes; `depth` = remaining list/vector nesting
fn pes(n: usize, depth: usize, under_ell: bool) -> Vec<Pe> {
    if n == 1 {
        return pe_atoms();
    }
    let mut out = vec![];
    if depth == 0 {
        return out;
    }
    // sub-lists and vectors of 1..3 elements, optional final ellipsis (never under an ellipsis)
    for seq in pe_seqs(n - 1, 3, depth - 1, under_ell) {
        if seq.is_empty() {
            continue;
        }
        out.push(Pe::List(seq.clone(), false));
        out.push(Pe::Vect(seq, false));
    }
    if !under_ell {
        for seq in with_final_ellipsis(n - 1, 3, depth - 1) {
            out.push(Pe::List(seq.clone(), true));
            out.push(Pe::Vect(seq, true));
        }
    }
    out
}

/// sequences whose LAST element is followed by an ellipsis (that element contains no ellipsis)
fn with_final_ellipsis(n: usize, maxlen: usize, depth: usize) -> Vec<Vec<Pe>> {
    let mut out = vec![];
    for last in 1..=n {
        for l in pes(last, depth, true) {
            for init in pe_seqs(n - last, maxlen - 1, depth, false) {
                let mut s = init;
                s.push(l.clone());
                out.push(s);
            }
        }
    }
    out
}

#[derive(Clone)]
pub struct Pattern {
    pub args: Vec<Pe>,
    pub ellipsis: bool,
    pub nodes: usize,
}

pub fn patterns(max_nodes: usize) -> Vec<Pattern> {
    let mut out = vec![Pattern { args: vec![], ellipsis: false, nodes: 0 }];
    for n in 1..=max_nodes {
        for s in pe_seqs(n, 3, 2, false) {
            if !s.is_empty() {
                out.push(Pattern { args: s, ellipsis: false, nodes: n });
            }
        }
        for s in with_final_ellipsis(n, 3, 2) {
            out.push(Pattern { args: s, ellipsis: true, nodes: n });
        }
    }
    out
}

/// render with canonical variable names a b c ... in order of occurrence;
/// returns (pattern sx incl. keyword, groups of variables: (name, ellipsis group id or None))
pub fn render_pattern(p: &Pattern) -> (Sx, Vec<(String, Option<usize>)>) {
    let mut vars: Vec<(String, Option<usize>)> = vec![];
    let mut next_group = 0usize;
    fn go(e: &Pe, vars: &mut Vec<(String, Option<usize>)>, group: Option<usize>, next_group: &mut usize) -> Sx {
        match e {
            Pe::Var => {
                let name = ((b'a' + vars.len() as u8) as char).to_string();
                vars.push((name.clone(), group));
                sym(&name)
            }
            Pe::Under => sym("_"),
            Pe::Lit => sym("lit"),
            Pe::One => Sx::Int(1),
            Pe::True => Sx::Bool(true),
            Pe::List(items, ell) | Pe::Vect(items, ell) => {
                let mut v = vec![];
                for (i, it) in items.iter().enumerate() {
                    let last = i == items.len() - 1;
                    let g = if *ell && last {
                        *next_group += 1;
                        Some(*next_group - 1)
                    } else {
                        group
                    };
                    v.push(go(it, vars, g, next_group));
                }
                if *ell {
                    v.push(sym("..."));
                }
                if matches!(e, Pe::List(..)) {
                    Sx::List(v)
                } else {
                    Sx::Vector(v)
                }
            }
        }
    }
    let top = Pe::List(p.args.clone(), p.ellipsis);
    let sx = go(&top, &mut vars, None, &mut next_group);
    let mut items = vec![sym("m")];
    if let Sx::List(v) = sx {
        items.extend(v);
    }
    (Sx::List(items), vars)
}

/// canonical templates for a pattern; `k` = rule index made observable in the expansion
pub fn templates(pat: &Sx, vars: &[(String, Option<usize>)], k: usize, all: bool) -> Vec<Sx> {
    let tag = sym(&format!("r{}", k));
    let mut out = vec![];
    // (i) flat dump
    let mut flat = vec![tag.clone()];
    for (v, g) in vars {
        flat.push(sym(v));
        if g.is_some() {
            flat.push(sym("..."));
        }
    }
    if !all {
        // multi-rule sets: the template also mentions, as FREE identifiers, the names other rules
        // use as pattern variables (they must stay symbols whatever earlier rules bound)
        let mut f = flat.clone();
        for n in ["a", "b", "c", "d"] {
            if !vars.iter().any(|(v, _)| v == n) {
                f.push(sym(n));
            }
        }
        out.push(quote(Sx::List(f)));
        return out;
    }
    out.push(quote(Sx::List(flat.clone())));
    // (ii) structure-preserving copy (underscores become a constant)
    fn has_var(x: &Sx) -> bool {
        match x {
            Sx::Sym(s) => s.len() == 1 && s != "_" && s != "u",
            Sx::List(v) | Sx::Vector(v) => v.iter().any(has_var),
            _ => false,
        }
    }
    fn copy_items(v: &[Sx]) -> Vec<Sx> {
        let mut out = vec![];
        let mut i = 0;
        while i < v.len() {
            let ell = i + 1 < v.len() && v[i + 1].as_sym() == Some("...");
            if ell && !has_var(&v[i]) {
                // a sub-template followed by an ellipsis must contain an ellipsis variable
                i += 2;
                continue;
            }
            out.push(copy(&v[i]));
            i += 1;
        }
        out
    }
    fn copy(x: &Sx) -> Sx {
        match x {
            Sx::Sym(s) if s == "_" => sym("u"),
            Sx::List(v) => Sx::List(copy_items(v)),
            Sx::Vector(v) => Sx::Vector(copy_items(v)),
            o => o.clone(),
        }
    }
    if let Sx::List(items) = pat {
        let mut c = vec![tag.clone()];
        c.extend(copy_items(&items[1..]));
        out.push(quote(Sx::List(c)));
    }
    // (iii) vector template
    out.push(quote(Sx::Vector(flat)));
    // (iv)/(v) list sub-template under an ellipsis, per ellipsis group
    let groups: BTreeSet<usize> = vars.iter().filter_map(|(_, g)| *g).collect();
    for g in groups {
        let gv: Vec<&String> = vars.iter().filter(|(_, x)| *x == Some(g)).map(|(n, _)| n).collect();
        let mut sub: Vec<Sx> = gv.iter().map(|n| sym(n)).collect();
        if sub.len() == 1 {
            sub.push(sub[0].clone()); // duplicated ellipsis variable ((a a) ...)
        }
        let mut t = vec![tag.clone()];
        for (v, gg) in vars {
            if gg.is_none() {
                t.push(sym(v));
            }
        }
        t.push(Sx::List(sub.clone()));
        t.push(sym("..."));
        out.push(quote(Sx::List(t.clone())));
        // (vi) the same with a VECTOR sub-template under the ellipsis, and a vector nested in a list
        let n = t.len();
        t[n - 2] = Sx::Vector(sub.clone());
        out.push(quote(Sx::List(t.clone())));
        t[n - 2] = Sx::List(vec![sub[0].clone(), Sx::Vector(sub)]);
        out.push(quote(Sx::List(t)));
    }
    out
}

fn use_atoms() -> Vec<Sx> {
    vec![Sx::Int(1), Sx::Int(2), Sx::Bool(true), Sx::Str("s".into()), sym("lit"), sym("foo")]
}
fn use_elems(n: usize, depth: usize) -> Vec<Sx> {
    if n == 1 {
        let mut v = use_atoms();
        if depth > 0 {
            v.push(Sx::List(vec![]));
            v.push(Sx::Vector(vec![]));
        }
        return v;
    }
    let mut out = vec![];
    if depth == 0 {
        return out;
    }
    for s in use_seqs(n - 1, 3, depth - 1) {
        if s.is_empty() {
            continue;
        }
        out.push(Sx::List(s.clone()));
        out.push(Sx::Vector(s));
    }
    out
}
fn use_seqs(n: usize, maxlen: usize, depth: usize) -> Vec<Vec<Sx>> {
    if n == 0 {
        return vec![vec![]];
    }
    if maxlen == 0 {
        return vec![];
    }
    let mut out = vec![];
    for first in 1..=n {
        for h in use_elems(first, depth) {
            for rest in use_seqs(n - first, maxlen - 1, depth) {
                let mut s = vec![h.clone()];
                s.extend(rest);
                out.push(s);
            }
        }
    }
    out
}
/// all uses `(m arg ...)` with 0..=4 arguments and at most `max_nodes` nodes
pub fn uses(max_nodes: usize) -> Vec<Sx> {
    let mut out = vec![];
    for n in 0..=max_nodes {
        for s in use_seqs(n, 4, 2) {
            let mut v = vec![sym("m")];
            v.extend(s);
            out.push(Sx::List(v));
        }
    }
    out
}

// ---------------------------------------------------------------------------------------------
// Datum <-> Sx

pub fn datum_of(x: &Sx) -> Datum {
    let body = match x {
        Sx::Int(i) => DatumBody::Primitive(Primitive::Integer(*i as i32)),
        Sx::Rat(a, b) => DatumBody::Primitive(Primitive::Rational(*a as i32, *b as u32)),
        Sx::Real(s) => DatumBody::Primitive(Primitive::Real(s.clone())),
        Sx::Bool(b) => DatumBody::Primitive(Primitive::Boolean(*b)),
        Sx::Char(c) => DatumBody::Primitive(Primitive::Character(*c)),
        Sx::Str(s) => DatumBody::Primitive(Primitive::String(s.clone())),
        Sx::Sym(s) => DatumBody::Symbol(s.clone()),
        Sx::Vector(v) => DatumBody::Vector(v.iter().map(datum_of).collect()),
        Sx::List(v) => {
            let mut tail: Datum = Datum { data: DatumBody::Pair(Box::new(GenericPair::Empty)), location: None };
            for i in v.iter().rev() {
                tail = Datum { data: DatumBody::Pair(Box::new(GenericPair::Some(datum_of(i), tail))), location: None };
            }
            return tail;
        }
        Sx::Dotted(v, t) => {
            let mut tail = datum_of(t);
            for i in v.iter().rev() {
                tail = Datum { data: DatumBody::Pair(Box::new(GenericPair::Some(datum_of(i), tail))), location: None };
            }
            return tail;
        }
    };
    Datum { data: body, location: None }
}

pub fn sx_of(d: &Datum) -> Sx {
    match &d.data {
        DatumBody::Primitive(Primitive::Integer(i)) => Sx::Int(*i as i64),
        DatumBody::Primitive(Primitive::Rational(a, b)) => Sx::Rat(*a as i64, *b as i64),
        DatumBody::Primitive(Primitive::Real(s)) => Sx::Real(s.clone()),
        DatumBody::Primitive(Primitive::Boolean(b)) => Sx::Bool(*b),
        DatumBody::Primitive(Primitive::Character(c)) => Sx::Char(*c),
        DatumBody::Primitive(Primitive::String(s)) => Sx::Str(s.clone()),
        DatumBody::Symbol(s) => Sx::Sym(s.clone()),
        DatumBody::Vector(v) => Sx::Vector(v.iter().map(sx_of).collect()),
        DatumBody::Pair(_) => {
            let mut items = vec![];
            let mut cur = d;
            loop {
                match &cur.data {
                    DatumBody::Pair(p) => match p.as_ref() {
                        GenericPair::Empty => return Sx::List(items),
                        GenericPair::Some(a, rest) => {
                            items.push(sx_of(a));
                            cur = rest;
                        }
                    },
                    _ => return Sx::Dotted(items, Box::new(sx_of(cur))),
                }
            }
        }
    }
}

// ---------------------------------------------------------------------------------------------

#[derive(Clone)]
pub struct RuleSet {
    pub literals: Vec<String>,
    pub rules: Vec<(Sx, Sx)>,
}

impl RuleSet {
    pub fn define_text(&self) -> String {
        let rules: Vec<String> = self.rules.iter().map(|(p, t)| format!("({} {})", p, t)).collect();
        format!("(define-syntax m (syntax-rules ({}) {}))", self.literals.join(" "), rules.join(" "))
    }
    pub fn reference(&self, min_items: usize) -> Rules {
        Rules { literals: self.literals.iter().cloned().collect(), rules: self.rules.clone(), min_items }
    }
}

pub enum Verdict {
    Ok(u64),
    Excluded(&'static str),
    Bad(String, String),
}

/// judge one use against an installed transformer (direct path)
pub fn judge_direct(t: &Transformer, rs: &RuleSet, u: &Sx) -> Verdict {
    let r1 = rs.reference(1).expand(u);
    let r0 = rs.reference(0).expand(u);
    if r1 != r0 {
        return Verdict::Excluded("zero items under an ellipsis (outside the supported class: one or more items)");
    }
    if let Expansion::OutOfClass(why) = r1 {
        return Verdict::Excluded(why);
    }
    let args = match u {
        Sx::List(v) => Sx::List(v[1..].to_vec()),
        _ => unreachable!(),
    };
    let d = datum_of(&args);
    let got = guarded(|| t.transform("m", d));
    match (&r1, got) {
        (_, Err(p)) => Verdict::Bad(show_exp(&r1), format!("PANIC {}", p)),
        (Expansion::Rule(_, want), Ok(Ok(d))) => {
            let g = sx_of(&d);
            if &g == want {
                Verdict::Ok(hash_of(&g))
            } else {
                Verdict::Bad(show_exp(&r1), format!("{}", g))
            }
        }
        (Expansion::NoMatch, Ok(Err(e))) => {
            if matches!(e.data, ErrorData::Syntax(SyntaxError::MacroMissMatch(..))) {
                Verdict::Ok(0)
            } else {
                // a syntax error of another kind is still "a syntax error, never a mis-expansion"
                if matches!(e.data, ErrorData::Syntax(_)) {
                    Verdict::Ok(1)
                } else {
                    Verdict::Bad(show_exp(&r1), format!("error {}", e))
                }
            }
        }
        (Expansion::Rule(..), Ok(Err(e))) => Verdict::Bad(show_exp(&r1), format!("error {}", e)),
        (Expansion::NoMatch, Ok(Ok(d))) => Verdict::Bad(show_exp(&r1), format!("{}", sx_of(&d))),
        (Expansion::OutOfClass(_), _) => unreachable!(),
    }
}

fn show_exp(e: &Expansion) -> String {
    match e {
        Expansion::Rule(i, x) => format!("rule {} => {}", i + 1, x),
        Expansion::NoMatch => "syntax error: no rule matches".into(),
        Expansion::OutOfClass(w) => format!("out of class: {}", w),
    }
}

/// install the rule set through the real parser and fetch the transformer object
pub fn install(it: &mut Interp, rs: &RuleSet) -> Result<Transformer, String> {
    match it.eval(&rs.define_text()) {
        Outcome::Val(_) => {}
        o => return Err(format!("define-syntax rejected: {}", o)),
    }
    let v = it.it.env.get("m").map(|v| v.clone());
    match v {
        Some(Value::Transformer(t)) => Ok(t),
        _ => Err("keyword m is not bound to a transformer after define-syntax".into()),
    }
}

/// evaluate `(m ...)` as text (macro use detected by the parser, expansion evaluated: the
/// templates are quoted data, so the value is the expansion)
pub fn judge_eval(it: &mut Interp, rs: &RuleSet, u: &Sx) -> Verdict {
    let r1 = rs.reference(1).expand(u);
    if r1 != rs.reference(0).expand(u) {
        return Verdict::Excluded("zero items under an ellipsis (outside the supported class: one or more items)");
    }
    let o = it.eval(&u.to_string());
    match (&r1, &o) {
        (Expansion::OutOfClass(w), _) => Verdict::Excluded(w),
        (Expansion::Rule(_, want), Outcome::Val(ob)) => {
            // want = (quote X): the value is the datum X
            let x = match want {
                Sx::List(v) if v.len() == 2 && v[0].as_sym() == Some("quote") => v[1].clone(),
                other => other.clone(),
            };
            let mut m = Machine::new(POLICIES[0]);
            let rv = m.datum(&x);
            if rmatch(&rv, ob) {
                Verdict::Ok(hash_of(ob))
            } else {
                Verdict::Bad(show_exp(&r1), format!("{}", o))
            }
        }
        (Expansion::NoMatch, Outcome::Err(crate::drive::ErrKind::NoMatchingRule, _)) | (Expansion::NoMatch, Outcome::Err(crate::drive::ErrKind::Syntax(_), _)) => Verdict::Ok(0),
        _ => Verdict::Bad(show_exp(&r1), format!("{}", o)),
    }
}

type Rendered = (Sx, Vec<(String, Option<usize>)>, usize);

pub struct Plan {
    /// single-rule sets, materialised (pattern x template x literal set)
    pub singles: Vec<RuleSet>,
    pub single_nodes: Vec<usize>,
    /// patterns used for ordered pairs / triples (rule sets are built on the fly by index)
    pub pair_pats: Vec<Rendered>,
    pub triple_pats: Vec<Rendered>,
    pub n_pairs: u64,
    pub n_triples: u64,
    pub uses_by_nodes: Vec<Vec<Sx>>,
    pub max_use_nodes_single: usize,
    pub max_use_nodes_multi: usize,
    pub eval_upto: usize,
    pub descr: serde_json::Value,
}

const LITSETS: usize = 2;
fn litset(k: usize) -> Vec<String> {
    if k == 0 {
        vec![]
    } else {
        vec!["lit".to_string()]
    }
}

impl Plan {
    pub fn total(&self) -> u64 {
        self.singles.len() as u64 + self.n_pairs + self.n_triples
    }
    /// the rule set with index i and the largest use size to run against it
    pub fn rule_set(&self, i: u64) -> (RuleSet, usize) {
        let ns = self.singles.len() as u64;
        if i < ns {
            // a pattern with n nodes is exercised by uses of up to n+2 nodes (one argument too many,
            // one more repetition under an ellipsis)
            let n = self.single_nodes[i as usize];
            return (self.singles[i as usize].clone(), (n + 2).min(self.max_use_nodes_single));
        }
        let t = |r: &Rendered, k| templates(&r.0, &r.1, k, false).remove(0);
        let mut i = i - ns;
        if i < self.n_pairs {
            let np = self.pair_pats.len() as u64;
            let l = (i % LITSETS as u64) as usize;
            i /= LITSETS as u64;
            let (a, b) = (&self.pair_pats[(i / np) as usize], &self.pair_pats[(i % np) as usize]);
            return (RuleSet { literals: litset(l), rules: vec![(a.0.clone(), t(a, 1)), (b.0.clone(), t(b, 2))] }, self.max_use_nodes_multi);
        }
        i -= self.n_pairs;
        let nt = self.triple_pats.len() as u64;
        let (a, b, c) = (&self.triple_pats[(i / (nt * nt)) as usize], &self.triple_pats[((i / nt) % nt) as usize], &self.triple_pats[(i % nt) as usize]);
        (RuleSet { literals: litset(1), rules: vec![(a.0.clone(), t(a, 1)), (b.0.clone(), t(b, 2)), (c.0.clone(), t(c, 3))] }, self.max_use_nodes_multi)
    }
}

pub fn plan(thorough: bool) -> Plan {
    let (single_nodes, pair_nodes, triple_nodes, use_single, use_multi) = if thorough { (4, 3, 2, 4, 3) } else { (3, 2, 1, 3, 3) };
    let pats = patterns(single_nodes);
    let rendered: Vec<Rendered> = pats
        .iter()
        .map(|p| {
            let (sx, vars) = render_pattern(p);
            (sx, vars, p.nodes)
        })
        .collect();
    let mut singles = vec![];
    let mut single_n = vec![];
    for r in &rendered {
        for l in 0..LITSETS {
            for t in templates(&r.0, &r.1, 1, true) {
                singles.push(RuleSet { literals: litset(l), rules: vec![(r.0.clone(), t)] });
                single_n.push(r.2);
            }
        }
    }
    let eval_upto = single_n.iter().position(|n| *n > 2).unwrap_or(singles.len());
    let pair_pats: Vec<Rendered> = rendered.iter().filter(|r| r.2 <= pair_nodes).cloned().collect();
    let triple_pats: Vec<Rendered> = if thorough { rendered.iter().filter(|r| r.2 <= triple_nodes).cloned().collect() } else { vec![] };
    let n_pairs = (pair_pats.len() * pair_pats.len() * LITSETS) as u64;
    let n_triples = (triple_pats.len() * triple_pats.len() * triple_pats.len()) as u64;
    let mut uses_by_nodes = vec![];
    for n in 0..=use_single.max(use_multi) {
        let mut v = vec![];
        for s in use_seqs(n, 4, 2) {
            let mut u = vec![sym("m")];
            u.extend(s);
            v.push(Sx::List(u));
        }
        uses_by_nodes.push(v);
    }
    let descr = json!({
        "single_rule_pattern_nodes": single_nodes, "patterns": pats.len(), "single_rule_sets": singles.len(),
        "pair_pattern_nodes": pair_nodes, "pair_patterns": pair_pats.len(), "rule_pairs": n_pairs,
        "triple_pattern_nodes": triple_nodes, "rule_triples": n_triples,
        "uses_by_nodes": uses_by_nodes.iter().map(|v| v.len()).collect::<Vec<_>>(),
        "max_use_nodes": [use_single, use_multi],
        "use_bound_per_single_rule": "pattern nodes + 2",
        "rule_sets_also_through_eval": eval_upto,
    });
    Plan { singles, single_nodes: single_n, pair_pats, triple_pats, n_pairs, n_triples, uses_by_nodes, max_use_nodes_single: use_single, max_use_nodes_multi: use_multi, eval_upto, descr }
}

/// literal data of every kind in patterns against every literal datum in uses: a literal matches
/// only an equal datum (same type, same exactness, same spelling class) - at top level of the
/// pattern, in a sub-list, in a vector and under an ellipsis
fn literal_data() -> Vec<Sx> {
    vec![
        Sx::Int(1), Sx::Int(2), Sx::Int(-1), Sx::Int(0), Sx::Real("1.0".into()), Sx::Real("1.5".into()), Sx::Real("0.5".into()), Sx::Real("0.0".into()), Sx::Rat(1, 2), Sx::Rat(3, 2),
        Sx::Bool(true), Sx::Bool(false), Sx::Str("s".into()), Sx::Str("t".into()), Sx::Str("1".into()), Sx::Str(String::new()), Sx::Char('a'), Sx::Char('b'), Sx::Char('1'), Sx::List(vec![]),
    ]
}

fn literal_data_matrix(acc: &mut Acc) {
    let mut it = Interp::must_new();
    let d = literal_data();
    let wrap = |k: usize, x: &Sx| -> Sx {
        match k {
            0 => x.clone(),
            1 => Sx::List(vec![x.clone()]),
            2 => Sx::Vector(vec![x.clone()]),
            _ => Sx::List(vec![sym("foo"), x.clone(), x.clone()]),
        }
    };
    for (pi, p) in d.iter().enumerate() {
        for k in 0..4 {
            // an empty-list literal is a (sub)pattern, not a datum: only as a wrapped element
            let pat = Sx::List(vec![sym("m"), wrap(k, p)]);
            let rs = RuleSet {
                literals: vec![],
                rules: vec![(pat, quote(sym("hit"))), (Sx::List(vec![sym("m"), sym("x")]), quote(Sx::List(vec![sym("miss"), sym("x")])))],
            };
            it.fresh_frame();
            acc.count("literal-data-rule-sets", 1);
            let t = match install(&mut it, &rs) {
                Ok(t) => t,
                Err(why) => {
                    acc.mismatch(Mismatch { idx: 9_000_000_000 + pi as u64, case: rs.define_text(), expected: "rule set accepted".into(), observed: why, payload: json!({"define": rs.define_text(), "use": null}) }, None);
                    continue;
                }
            };
            for (ui, u) in d.iter().enumerate() {
                let use_ = Sx::List(vec![sym("m"), wrap(k, u)]);
                for (path, v) in [("transform", judge_direct(&t, &rs, &use_)), ("eval", judge_eval(&mut it, &rs, &use_))] {
                    acc.evals += 1;
                    acc.count("literal-data-matrix", 1);
                    match v {
                        Verdict::Ok(h) => acc.distinct_hash(h),
                        Verdict::Excluded(why) => acc.exclude(why, || format!("{}  {}", rs.define_text(), use_)),
                        Verdict::Bad(exp, obs) => acc.mismatch(
                            Mismatch {
                                idx: 9_000_000_000 + (pi * 1000 + k * 100 + ui) as u64,
                                case: format!("[literal-data] {}\n{}", rs.define_text(), use_),
                                expected: exp,
                                observed: format!("[{}] {}", path, obs),
                                payload: json!({"define": rs.define_text(), "use": use_.to_string(), "literals": rs.literals, "rules": rs.rules.iter().map(|(p, t)| vec![p.to_string(), t.to_string()]).collect::<Vec<_>>()}),
                            },
                            None,
                        ),
                    }
                }
            }
        }
    }
}

/// Runs under an ellipsis: every sub-pattern of a small set (a literal identifier, literal
/// datum, nested list or vector inside the repeated sub-pattern) against every run of 1-3 items
/// drawn from matching and near-miss variants: the sub-pattern is matched against EVERY item of
/// the run, not only the first
fn ellipsis_run_matrix(acc: &mut Acc) {
    let mut it = Interp::must_new();
    let p = |t: &str| crate::sexp::parse1(t);
    // (sub-pattern, template for one item, item variants)
    let subs: Vec<(Sx, Sx, Vec<Sx>)> = vec![
        (p("(a lit b)"), p("(a b)"), vec![p("(1 lit 2)"), p("(1 foo 2)"), p("(1 2 lit)"), p("(1 lit)"), p("(1 \"lit\" 2)")]),
        (p("(lit a)"), p("(a)"), vec![p("(lit 1)"), p("(foo 1)"), p("(1 lit)"), p("lit"), p("((lit) 1)")]),
        (p("(a 1)"), p("(a)"), vec![p("(2 1)"), p("(2 2)"), p("(2 1.0)"), p("(2)"), p("(1 1 1)")]),
        (p("#(a lit)"), p("(a)"), vec![p("#(1 lit)"), p("#(1 foo)"), p("(1 lit)"), p("#(lit 1)"), p("#(1 lit 2)")]),
        (p("(a (lit b))"), p("(a b)"), vec![p("(1 (lit 2))"), p("(1 (foo 2))"), p("(1 lit 2)"), p("(1 (lit))"), p("((lit 2) 1)")]),
        (p("(a #t)"), p("(a)"), vec![p("(1 #t)"), p("(1 #f)"), p("(1 1)"), p("(#t 1)"), p("(1 #t #t)")]),
    ];
    for (si, (sub, item_tpl, variants)) in subs.iter().enumerate() {
        let pat = Sx::List(vec![sym("m"), sub.clone(), sym("...")]);
        let tpl = quote(Sx::List(vec![sym("hit"), item_tpl.clone(), sym("...")]));
        let rs = RuleSet { literals: vec!["lit".into()], rules: vec![(pat, tpl), (Sx::List(vec![sym("m"), sym("x"), sym("...")]), quote(Sx::List(vec![sym("other"), sym("x"), sym("...")])))] };
        it.fresh_frame();
        acc.count("ellipsis-run-rule-sets", 1);
        let t = match install(&mut it, &rs) {
            Ok(t) => t,
            Err(why) => {
                acc.mismatch(Mismatch { idx: 9_100_000_000 + si as u64, case: rs.define_text(), expected: "rule set accepted".into(), observed: why, payload: json!({"define": rs.define_text(), "use": null}) }, None);
                continue;
            }
        };
        let k = variants.len();
        for len in 1..=3usize {
            for code in 0..k.pow(len as u32) {
                let mut items = vec![sym("m")];
                let mut x = code;
                for _ in 0..len {
                    items.push(variants[x % k].clone());
                    x /= k;
                }
                let use_ = Sx::List(items);
                for (path, v) in [("transform", judge_direct(&t, &rs, &use_)), ("eval", judge_eval(&mut it, &rs, &use_))] {
                    acc.evals += 1;
                    acc.count("ellipsis-run-matrix", 1);
                    match v {
                        Verdict::Ok(h) => acc.distinct_hash(h),
                        Verdict::Excluded(why) => acc.exclude(why, || format!("{}  {}", rs.define_text(), use_)),
                        Verdict::Bad(exp, obs) => acc.mismatch(
                            Mismatch {
                                idx: 9_100_000_000 + (si * 10_000 + len * 1000 + code) as u64,
                                case: format!("[ellipsis-run] {}\n{}", rs.define_text(), use_),
                                expected: exp,
                                observed: format!("[{}] {}", path, obs),
                                payload: json!({"define": rs.define_text(), "use": use_.to_string(), "literals": rs.literals, "rules": rs.rules.iter().map(|(p, t)| vec![p.to_string(), t.to_string()]).collect::<Vec<_>>()}),
                            },
                            None,
                        ),
                    }
                }
            }
        }
    }
}

/// Long runs: ellipsis variables bound to every number N <= top of items (flat, pairs, inside a
/// vector, nested runs, runs after fixed leading patterns), the items all different so that a
/// dropped, duplicated or reordered one shows; literal strings / characters spelled like a literal
/// identifier in the literal's position.
fn long_run_matrix(acc: &mut Acc, top: usize) {
    let mut it = Interp::must_new();
    let p = |t: &str| crate::sexp::parse1(t);
    let sets: Vec<(&str, Vec<(&str, &str)>, Box<dyn Fn(usize) -> String>)> = vec![
        ("flat", vec![("(m x ...)", "'(hit x ...)")], Box::new(|n| format!("(m {})", (1..=n).map(|i| i.to_string()).collect::<Vec<_>>().join(" ")))),
        ("after-two-fixed", vec![("(m a b x ...)", "'(hit b a (x ...) x ...)")], Box::new(|n| format!("(m p q {})", (1..=n).map(|i| i.to_string()).collect::<Vec<_>>().join(" ")))),
        ("pairs", vec![("(m (k v) ...)", "'((v k) ...)")], Box::new(|n| format!("(m {})", (1..=n).map(|i| format!("({} {})", i, i + 1000)).collect::<Vec<_>>().join(" ")))),
        ("pairs-apart", vec![("(m (k v) ...)", "'((k ...) (v ...))")], Box::new(|n| format!("(m {})", (1..=n).map(|i| format!("({} {})", i, i + 1000)).collect::<Vec<_>>().join(" ")))),
        ("vector", vec![("(m #(x ...))", "'#(x ... end)")], Box::new(|n| format!("(m #({}))", (1..=n).map(|i| i.to_string()).collect::<Vec<_>>().join(" ")))),
        ("nested-long-inner", vec![("(m (a b ...) ...)", "'((a (b ...)) ...)")], Box::new(|n| format!("(m (h1 {}) (h2) (h3 {}))", (1..=n).map(|i| i.to_string()).collect::<Vec<_>>().join(" "), (1..=n / 2).map(|i| i.to_string()).collect::<Vec<_>>().join(" ")))),
        ("nested-long-outer", vec![("(m (a b ...) ...)", "'((b ... a) ...)")], Box::new(|n| format!("(m {})", (1..=n).map(|i| format!("({} {} {})", i, i + 1, i + 2)).collect::<Vec<_>>().join(" ")))),
        ("literal-in-run", vec![("(m (lit x) ...)", "'(all-lit x ...)"), ("(m y ...)", "'(other y ...)")], Box::new(|n| format!("(m {})", (1..=n).map(|i| if i == n && n % 2 == 0 { format!("(foo {})", i) } else { format!("(lit {})", i) }).collect::<Vec<_>>().join(" ")))),
    ];
    for (si, (name, rules, mk)) in sets.iter().enumerate() {
        let rs = RuleSet { literals: vec!["lit".into()], rules: rules.iter().map(|(a, b)| (p(a), p(b))).collect() };
        it.fresh_frame();
        let t = match install(&mut it, &rs) {
            Ok(t) => t,
            Err(why) => {
                acc.mismatch(Mismatch { idx: 9_200_000_000 + si as u64, case: rs.define_text(), expected: "rule set accepted".into(), observed: why, payload: json!({"define": rs.define_text(), "use": null}) }, None);
                continue;
            }
        };
        for n in 0..=top {
            let use_ = p(&mk(n));
            let mut paths = vec![("transform", judge_direct(&t, &rs, &use_))];
            if n % 8 == 0 || n < 8 {
                paths.push(("eval", judge_eval(&mut it, &rs, &use_)));
            }
            for (path, v) in paths {
                acc.evals += 1;
                acc.count(&format!("long-run-matrix: {}", name), 1);
                match v {
                    Verdict::Ok(h) => acc.distinct_hash(h),
                    Verdict::Excluded(why) => acc.exclude(why, || format!("{}  {}", rs.define_text(), use_)),
                    Verdict::Bad(exp, obs) => acc.mismatch(
                        Mismatch { idx: 9_200_000_000 + (si * 10_000 + n) as u64, case: format!("[long-run {} n={}] {}\n{}", name, n, rs.define_text(), use_), expected: exp, observed: format!("[{}] {}", path, obs), payload: json!({"define": rs.define_text(), "use": use_.to_string(), "literals": rs.literals, "rules": rs.rules.iter().map(|(p, t)| vec![p.to_string(), t.to_string()]).collect::<Vec<_>>()}) },
                        None,
                    ),
                }
            }
        }
    }
    // a string / character whose contents are spelled like a literal identifier is not that identifier
    let rs = RuleSet { literals: vec!["else".into(), "=".into(), "lit".into()], rules: vec![(p("(m else a)"), p("'(is-else a)")), (p("(m a = b)"), p("'(is-eq a b)")), (p("(m lit)"), p("'is-lit")), (p("(m a ...)"), p("'(other a ...)"))] };
    it.fresh_frame();
    if let Ok(t) = install(&mut it, &rs) {
        for u in ["(m else 1)", "(m \"else\" 1)", "(m 'else 1)", "(m 2 = 3)", "(m 2 \"=\" 3)", "(m 2 #\\= 3)", "(m lit)", "(m \"lit\")", "(m #(lit))", "(m (lit))", "(m #\\l)", "(m \"\")"] {
            let use_ = p(u);
            for (path, v) in [("transform", judge_direct(&t, &rs, &use_)), ("eval", judge_eval(&mut it, &rs, &use_))] {
                acc.evals += 1;
                acc.count("literal-spelling-matrix", 1);
                if let Verdict::Bad(exp, obs) = v {
                    acc.mismatch(Mismatch { idx: 9_300_000_000, case: format!("[literal spelling] {}\n{}", rs.define_text(), use_), expected: exp, observed: format!("[{}] {}", path, obs), payload: json!({"define": rs.define_text(), "use": use_.to_string(), "literals": rs.literals, "rules": rs.rules.iter().map(|(p, t)| vec![p.to_string(), t.to_string()]).collect::<Vec<_>>()}) }, None);
                }
            }
        }
    }
}

pub fn run(ctx: &Ctx) -> i32 {
    let pl = plan(ctx.thorough());
    let total = std::env::var("C04_LIMIT").ok().and_then(|s| s.parse().ok()).unwrap_or(pl.total());
    if std::env::var("MC_VERBOSE").is_ok() {
        eprintln!("C04 plan: {}", pl.descr);
    }
    let plr = &pl;
    let acc = par::sweep(
        total,
        8,
        |_| Interp::must_new(),
        |it, acc: &mut Acc, i| {
            if std::env::var("C04_TRACE").is_ok() {
                eprintln!("RULESET {}", i);
            }
            let (rs, use_nodes) = plr.rule_set(i);
            let rs = &rs;
            let uses: Vec<&Sx> = plr.uses_by_nodes[..=use_nodes].iter().flatten().collect();
            acc.count("rule-sets", 1);
            if std::env::var("C04_TRACE").is_ok() {
                eprintln!("INSTALL {}", rs.define_text());
            }
            let t = match install(it, rs) {
                Ok(t) => t,
                Err(why) => {
                    acc.mismatch(
                        Mismatch { idx: i * 1_000_000, case: rs.define_text(), expected: "rule set accepted".into(), observed: why, payload: json!({"define": rs.define_text(), "use": null}) },
                        None,
                    );
                    return;
                }
            };
            for (j, u) in uses.iter().enumerate() {
                let idx = i * 1_000_000 + j as u64;
                let u: &Sx = u;
                let mut both = vec![("transform", judge_direct(&t, rs, u))];
                if (i as usize) < plr.eval_upto {
                    both.push(("eval", judge_eval(it, rs, u)));
                }
                for (path, v) in both {
                    acc.evals += 1;
                    match v {
                        Verdict::Ok(h) => {
                            acc.distinct_hash(h);
                            acc.outcome_class(if h <= 1 { "no-match syntax error" } else { "expanded" });
                            if j == 7 && i % (total / 6 + 1) == 0 && path == "transform" {
                                acc.sample(idx, json!({"rules": rs.define_text(), "use": u.to_string()}));
                            }
                        }
                        Verdict::Excluded(why) => acc.exclude(why, || format!("{}  {}", rs.define_text(), u)),
                        Verdict::Bad(exp, obs) => acc.mismatch(
                            Mismatch {
                                idx,
                                case: format!(
                                    "[{}{}{}] {}\n{}",
                                    if exp.starts_with("rule") { "should-match" } else { "should-not-match" },
                                    if obs.contains("PANIC") { ":panic" } else if obs.contains("error") { ":got-error" } else { ":got-expansion" },
                                    if rs.define_text().contains("...") { ":ellipsis" } else { "" },
                                    rs.define_text(),
                                    u
                                ),
                                expected: exp,
                                observed: format!("[{}] {}", path, obs),
                                payload: json!({"define": rs.define_text(), "use": u.to_string(), "literals": rs.literals, "rules": rs.rules.iter().map(|(p, t)| vec![p.to_string(), t.to_string()]).collect::<Vec<_>>()}),
                            },
                            None,
                        ),
                    }
                }
            }
        },
    );
    let mut acc = acc;
    literal_data_matrix(&mut acc);
    ellipsis_run_matrix(&mut acc);
    long_run_matrix(&mut acc, if ctx.thorough() { 400 } else { 160 });
    report::finish(
        acc,
        RunInfo {
            id: "C04".into(),
            tier: ctx.tier_name(),
            seed: ctx.seed,
            exhaustive: true,
            rule: "every argument pattern (variables, _, a literal identifier, literal data 1 and #t, sub-lists and vectors of 1-3 elements nested <= 2, optional final ellipsis, no ellipsis under an ellipsis) up to the node bound, with every canonical template (flat dump, structure-preserving copy, vector, list / vector / vector-in-list sub-template under ellipsis, duplicated ellipsis variable) and literal sets () and (lit); all ordered pairs (thorough: triples) of small rules; against every use (0-4 arguments over 1 2 #t \"s\" lit foo with lists and vectors nested <= 2) up to the node bound; plus the literal-data matrix: each of 20 literal data (exact / inexact / ratio numbers of equal value, booleans, strings, characters, the empty list) as a pattern element at top level, in a sub-list, in a vector and twice in a list, against each of the 20 as the use; the ellipsis-run matrix: 6 repeated sub-patterns (with a literal identifier, a literal datum, a nested list, a vector) against every run of 1-3 items over 5 matching / near-miss variants each; distinct = distinct expansions; long-run matrix: ellipsis variables bound to every number N <= 160 (thorough 400) of distinct items (flat, after fixed patterns, pairs, inside a vector, nested runs, a literal inside the run); strings / characters spelled like a literal identifier in the literal's position".into(),
            bounds: pl.descr.clone(),
            assumptions: vec!["refsyn written from R7RS 4.3.2 for the supported class; (rule set, use) pairs on which 'zero or more' and 'one or more' ellipsis semantics differ are outside the class and only counted".into()],
            wall_s: ctx.elapsed(),
            extra: json!({}),
        },
    )
}

pub fn replay(p: &serde_json::Value) -> bool {
    let lits: Vec<String> = p["literals"].as_array().map(|a| a.iter().map(|x| x.as_str().unwrap().to_string()).collect()).unwrap_or_default();
    let rules: Vec<(Sx, Sx)> = p["rules"].as_array().unwrap().iter().map(|r| (crate::sexp::parse1(r[0].as_str().unwrap()), crate::sexp::parse1(r[1].as_str().unwrap()))).collect();
    let rs = RuleSet { literals: lits, rules };
    let u = crate::sexp::parse1(p["use"].as_str().unwrap());
    let mut it = Interp::new().unwrap();
    let t = match install(&mut it, &rs) {
        Ok(t) => t,
        Err(w) => {
            println!("{}", w);
            return true;
        }
    };
    let mut bad = false;
    for v in [judge_direct(&t, &rs, &u), judge_eval(&mut it, &rs, &u)] {
        if let Verdict::Bad(e, o) = v {
            println!("{}\n{}\nexpected: {}\nobserved: {}", rs.define_text(), u, e, o);
            bad = true;
        }
    }
    bad
}

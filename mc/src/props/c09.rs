//! C09 — exact arithmetic is exact, inexactness is contagious.
//! E-sweep: every unary op on G, every binary op on G^2, every 3-operand fold on G^3, judged by refnum.
use crate::drive::{panic_class, Interp, Obs, Outcome};
use crate::numgrid::{grid, GridNum};
use crate::refnum::{self, int, DivByZero, RNum};
use crate::report::{self, hash_of, Acc, Mismatch, RunInfo};
use crate::{par, Ctx};
use serde_json::json;

const UNARY: &[&str] = &["abs", "floor", "ceiling", "-", "/"];
const BINARY: &[&str] = &["+", "-", "*", "/", "floor-quotient", "floor-remainder"];
const FOLD3: &[&str] = &["+", "-", "*", "/"];

const LIM15: i128 = 1 << 15;
const I32MAX: i128 = i32::MAX as i128;

/// reference computation with bookkeeping for the clause domains
pub struct RefRun {
    /// largest reduced component magnitude seen in operands / intermediates / result
    pub max_mag: i128,
    /// an exact ratio with a (reduced) component beyond 2^24 met an inexact operand
    pub conv_unsafe: bool,
    /// an operand, intermediate or result of the exact computation does not fit i32 components
    pub beyond: bool,
}

impl RefRun {
    fn new() -> Self {
        RefRun { max_mag: 0, conv_unsafe: false, beyond: false }
    }
    fn see(&mut self, r: &RNum) {
        self.max_mag = self.max_mag.max(r.magnitude());
        if let RNum::Exact(n, d) = r {
            if *n < i32::MIN as i128 || *n > I32MAX || *d > I32MAX {
                self.beyond = true;
            }
        }
    }
    fn bin(&mut self, op: &str, a: RNum, b: RNum) -> Result<RNum, DivByZero> {
        // conversion safety: an exact non-integer operand meeting an inexact one
        if a.is_exact() != b.is_exact() {
            let e = if a.is_exact() { a } else { b };
            if let RNum::Exact(_, d) = e {
                // (n as f32)/(d as f32) equals the correctly rounded quotient only while both
                // components are exactly representable
                if d != 1 && e.magnitude() > (1 << 24) {
                    self.conv_unsafe = true;
                }
            }
        }
        let r = match op {
            "+" => a.add(b),
            "-" => a.sub(b),
            "*" => a.mul(b),
            "/" => a.div(b)?,
            _ => unreachable!(),
        };
        self.see(&r);
        Ok(r)
    }
}

pub fn reference(op: &str, args: &[RNum], rr: &mut RefRun) -> Result<RNum, DivByZero> {
    for a in args {
        rr.see(a);
    }
    let r = match (op, args.len()) {
        ("abs", 1) => args[0].abs(),
        ("floor", 1) => args[0].floor(),
        ("ceiling", 1) => args[0].ceiling(),
        ("-", 1) => args[0].neg(),
        ("/", 1) => rr.bin("/", int(1), args[0])?,
        ("floor-quotient", 2) => {
            let q = rr.bin("/", args[0], args[1])?;
            q.floor()
        }
        ("floor-remainder", 2) => {
            let q = rr.bin("/", args[0], args[1])?.floor();
            let p = rr.bin("*", q, args[1])?;
            rr.bin("-", args[0], p)?
        }
        (op, _) => {
            let mut acc = args[0];
            for b in &args[1..] {
                acc = rr.bin(op, acc, *b)?;
            }
            acc
        }
    };
    rr.see(&r);
    Ok(r)
}

pub enum Verdict {
    Ok,
    Excluded(&'static str),
    Bad(String),
}

/// Judge one case. `wrap` = the binary was built without overflow checks.
pub fn judge(op: &str, args: &[RNum], out: &Outcome) -> Verdict {
    let mut rr = RefRun::new();
    let r = reference(op, args, &mut rr);
    let all_exact = args.iter().all(|a| a.is_exact());
    if all_exact {
        let clause_a = args.iter().all(|a| a.magnitude() < LIM15) && !rr.beyond;
        match r {
            Err(DivByZero) => match out {
                Outcome::Err(crate::drive::ErrKind::DivByZero, _) => Verdict::Ok,
                Outcome::Panic(m) if !clause_a && panic_class(m) == "arith-overflow" => {
                    Verdict::Excluded("i32 overflow panic beyond the always-exact clause (judged by C07)")
                }
                Outcome::Val(Obs::Real(_)) | Outcome::Err(..) if !clause_a => {
                    Verdict::Excluded("exact result beyond the always-exact clause: inexact or error accepted")
                }
                o => Verdict::Bad(format!("expected division-by-zero error, got {}", o)),
            },
            Ok(r) => match out {
                Outcome::Val(o @ (Obs::Int(_) | Obs::Rat(..))) => {
                    if refnum::matches(&r, o) {
                        Verdict::Ok
                    } else {
                        Verdict::Bad(format!("wrong exact number: expected {}", r))
                    }
                }
                Outcome::Val(Obs::Real(_)) | Outcome::Err(..) => {
                    if clause_a {
                        Verdict::Bad(format!("operands below 2^15 must give the exact result {}", r))
                    } else {
                        Verdict::Excluded("exact result beyond the always-exact clause: inexact or error accepted")
                    }
                }
                Outcome::Panic(m) => {
                    if clause_a {
                        Verdict::Bad(format!("operands below 2^15 must give the exact result {}", r))
                    } else if panic_class(m) == "arith-overflow" {
                        Verdict::Excluded("i32 overflow panic beyond the always-exact clause (judged by C07)")
                    } else {
                        Verdict::Bad(format!("panic; expected {}", r))
                    }
                }
                Outcome::Val(o) => Verdict::Bad(format!("not a number: {}; expected {}", o, r)),
            },
        }
    } else {
        // Clause C: IEEE binary32 on the converted operands
        if rr.conv_unsafe {
            return Verdict::Excluded("exact ratio with components beyond 2^24 converted to binary32");
        }
        if rr.beyond {
            // the exact prefix of the fold is not representable: where the implementation switches to
            // inexact arithmetic is not determined by the property
            return match out {
                Outcome::Val(Obs::Int(_)) | Outcome::Val(Obs::Rat(..)) => {
                    Verdict::Bad("an operation with an inexact operand returned an exact number".into())
                }
                Outcome::Panic(m) if panic_class(m) != "arith-overflow" => Verdict::Bad(format!("panic {}", m)),
                _ => Verdict::Excluded("exact prefix of a fold beyond i32 before the inexact operand"),
            };
        }
        match r {
            // the exact prefix of a left fold divided by exact zero before any inexact operand
            Err(DivByZero) => match out {
                Outcome::Err(crate::drive::ErrKind::DivByZero, _) => Verdict::Ok,
                o => Verdict::Bad(format!("expected division-by-zero error, got {}", o)),
            },
            Ok(r) => match out {
                Outcome::Val(o @ Obs::Real(bits)) => {
                    if refnum::matches(&r, o) {
                        return Verdict::Ok;
                    }
                    let got = f32::from_bits(*bits);
                    let want = r.to_f32();
                    // sign of a zero produced by unary minus is not determined by the property
                    if got == 0.0 && want == 0.0 && op == "-" && args.len() == 1 {
                        return Verdict::Excluded("sign of zero from unary minus");
                    }
                    if op == "floor-remainder" || op == "floor-quotient" {
                        // accept the mathematically exact floor result as well
                        let (a, b) = (args[0].to_f32() as f64, args[1].to_f32() as f64);
                        let q = (a / b).floor();
                        let alt = if op == "floor-quotient" { q } else { a - q * b } as f32;
                        if alt.to_bits() == got.to_bits() || (alt == got) {
                            return Verdict::Ok;
                        }
                        if !want.is_finite() || !got.is_finite() {
                            return Verdict::Excluded("inexact floor-remainder on non-representable intermediates");
                        }
                    }
                    Verdict::Bad(format!("expected binary32 {:?}", want))
                }
                Outcome::Panic(m) if panic_class(m) == "arith-overflow" => {
                    // exact prefix of the fold overflowed before the inexact operand was reached
                    if rr.beyond || args.iter().any(|a| a.magnitude() >= LIM15) {
                        Verdict::Excluded("i32 overflow panic beyond the always-exact clause (judged by C07)")
                    } else {
                        Verdict::Bad(format!("panic; expected {}", r))
                    }
                }
                o => Verdict::Bad(format!("expected inexact {}, got {}", r, o)),
            },
        }
    }
}

pub struct Space {
    pub g: Vec<GridNum>,
    pub n1: u64,
    pub n2: u64,
    pub n3: u64,
}

impl Space {
    pub fn new(thorough: bool) -> Space {
        let g = grid(thorough);
        let n = g.len() as u64;
        Space { n1: UNARY.len() as u64 * n, n2: BINARY.len() as u64 * n * n, n3: FOLD3.len() as u64 * n * n * n, g }
    }
    pub fn total(&self) -> u64 {
        self.n1 + self.n2 + self.n3
    }
    /// (op, operand indices)
    pub fn case(&self, mut i: u64) -> (&'static str, Vec<usize>) {
        let n = self.g.len() as u64;
        if i < self.n1 {
            return (UNARY[(i / n) as usize], vec![(i % n) as usize]);
        }
        i -= self.n1;
        if i < self.n2 {
            let op = BINARY[(i / (n * n)) as usize];
            let r = i % (n * n);
            return (op, vec![(r / n) as usize, (r % n) as usize]);
        }
        i -= self.n2;
        let op = FOLD3[(i / (n * n * n)) as usize];
        let r = i % (n * n * n);
        (op, vec![(r / (n * n)) as usize, ((r / n) % n) as usize, (r % n) as usize])
    }
}

pub fn setup_interp(g: &[GridNum]) -> Interp {
    let mut it = Interp::must_new();
    for (i, x) in g.iter().enumerate() {
        let o = it.eval(&format!("(define g{} {})", i, x.text));
        if !matches!(o, Outcome::Val(_)) {
            crate::drive::impl_fail(&format!("the grid binding (define g{} {}) => {}", i, x.text, o));
        }
    }
    it
}

pub fn case_text(op: &str, idx: &[usize]) -> String {
    let mut s = format!("({}", op);
    for i in idx {
        s.push_str(&format!(" g{}", i));
    }
    s.push(')');
    s
}
pub fn case_pretty(g: &[GridNum], op: &str, idx: &[usize]) -> String {
    let mut s = format!("({}", op);
    for i in idx {
        s.push_str(&format!(" {}", g[*i].text));
    }
    s.push(')');
    s
}

/// first calls of the length-2 histories: failures part-way through an operation (a non-number
/// after numbers of either exactness, division by exact zero after a ratio / an inexact prefix) and
/// successful calls that exercise the reduction of ratios
pub const FIRST_CALLS: &[&str] = &[
    "(+ 1.5 'a)", "(+ 1 'a)", "(- 1/2 \"s\")", "(* 1.5 2 'a)", "(/ 1 0)", "(/ 1/2 0)", "(/ 1.5 2 0 3)", "(/ 0)", "(floor-quotient 1 0)", "(floor-remainder 7/2 0)", "(abs 'a)", "(floor \"1\")", "(ceiling 'a)", "(- 'a)",
    "(/ 0 15)", "(* 65536/3 65536/5)", "(+ 2147483647 1)", "(* 1e38 10)", "(- -2147483648 1)", "(/ 6 4)",
];
const HISTORY_PROBES: &[&str] = &["1", "2", "1.5", "1/2", "-7/2", "0", "16777217", "3.0", "-3", "65536", "2/3", "7"];

fn history_phase(sp: &Space, acc: &mut Acc) {
    let mut it = setup_interp(&sp.g);
    let probes: Vec<usize> = HISTORY_PROBES.iter().map(|t| sp.g.iter().position(|x| &x.text == t).unwrap_or_else(|| panic!("probe {} not in the grid", t))).collect();
    for first in FIRST_CALLS {
        for op in UNARY.iter().chain(BINARY) {
            let unary = UNARY.contains(op) && !BINARY.contains(op);
            for a in &probes {
                for b in &probes {
                    let idx = if unary { vec![*a] } else { vec![*a, *b] };
                    // (whether the first call fails is not judged here)
                    let _ = it.eval(first);
                    let out = it.eval(&case_text(op, &idx));
                    let args: Vec<RNum> = idx.iter().map(|k| sp.g[*k].val).collect();
                    acc.evals += 1;
                    acc.count("history: first call then probe", 1);
                    if let Verdict::Bad(why) = judge(op, &args, &out) {
                        acc.mismatch(
                            Mismatch {
                                idx: 999,
                                case: format!("[after {}] {}", first, case_pretty(&sp.g, op, &idx)),
                                expected: why,
                                observed: format!("{}", out),
                                payload: json!({"kind":"op","op":op,"operands": idx.iter().map(|k| sp.g[*k].text.clone()).collect::<Vec<_>>(), "after": first}),
                            },
                            None,
                        );
                    }
                    if unary {
                        break;
                    }
                }
            }
        }
    }
}

/// operand lists of every length N <= max built from a sub-grid: all operands the same; two values
/// alternating; one different operand (other exactness, zero, a ratio) at the first, the middle or the
/// last position. A fold that treats short argument lists specially, or loses exactness / order
/// beyond some length, shows here.
pub fn scale_operands(g: &[GridNum], texts: &[&str], max: usize) -> Vec<Vec<usize>> {
    let ix: Vec<usize> = texts.iter().map(|t| g.iter().position(|x| &x.text == t).unwrap_or_else(|| panic!("probe {} not in the grid", t))).collect();
    let mut out = vec![];
    for n in 3..=max {
        for a in &ix {
            out.push(vec![*a; n]);
        }
        for (i, a) in ix.iter().enumerate() {
            let b = ix[(i + 1) % ix.len()];
            let c = ix[(i + 3) % ix.len()];
            out.push((0..n).map(|k| if k % 2 == 0 { *a } else { b }).collect());
            for pos in [0, n / 2, n - 1] {
                for odd in [b, c] {
                    let mut v = vec![*a; n];
                    v[pos] = odd;
                    out.push(v);
                }
            }
        }
    }
    out
}

/// the exact fold stays within components of 2^60 (so that the i128 reference cannot overflow)
fn fold_fits(op: &str, args: &[RNum]) -> bool {
    let mut acc = args[0];
    for b in &args[1..] {
        if let RNum::Exact(n, d) = acc {
            if n.abs() > (1 << 60) || d.abs() > (1 << 60) {
                return false;
            }
        }
        acc = match op {
            "+" => acc.add(*b),
            "-" => acc.sub(*b),
            "*" => acc.mul(*b),
            _ => match acc.div(*b) {
                Ok(r) => r,
                Err(_) => return true,
            },
        };
    }
    true
}

fn euclid_variants(a: i128, b: i128) -> Vec<(String, &'static str, Vec<RNum>)> {
    vec![
        (format!("(/ {} {})", a, b), "/", vec![int(a), int(b)]),
        (format!("(/ -{} {})", a, b), "/", vec![int(-a), int(b)]),
        (format!("(* 1 {}/{})", a, b), "*", vec![int(1), int(a).div(int(b)).unwrap()]),
        (format!("(- {}/{})", a, b), "-", vec![int(a).div(int(b)).unwrap()]),
    ]
}

/// Euclid-depth ladder: quotients of consecutive and non-consecutive Fibonacci numbers up to
/// F(46) < 2^31 (the inputs on which reducing a ratio takes the most steps, 1..44 of them), in both
/// signs and both orders, written as literals and as ratio literals.
fn euclid_phase(sp: &Space, acc: &mut Acc) {
    let mut fib: Vec<i128> = vec![1, 1];
    while fib.len() < 46 {
        let k = fib.len();
        fib.push(fib[k - 1] + fib[k - 2]);
    }
    let mut it = setup_interp(&sp.g);
    for i in 1..fib.len() {
        for j in 1..fib.len() {
            let (a, b) = (fib[i], fib[j]);
            for (k, (text, op, args)) in euclid_variants(a, b).into_iter().enumerate() {
                if (i + j) % 3 != 0 && (i as i64 - j as i64).abs() > 2 {
                    continue;
                }
                let out = it.eval(&text);
                acc.evals += 1;
                acc.count("Euclid-depth ladder (Fibonacci quotients)", 1);
                if let Verdict::Bad(why) = judge(op, &args, &out) {
                    acc.mismatch(Mismatch { idx: 6_000_000_000 + (i * 100 + j) as u64, case: text.clone(), expected: why, observed: format!("{}", out), payload: json!({"kind": "euclid", "a": a as i64, "b": b as i64, "variant": k}) }, None);
                }
            }
        }
    }
}

fn scale_phase(sp: &Space, acc: &mut Acc, max: usize) {
    let lists = scale_operands(&sp.g, &["1", "2", "1.5", "1/2", "-3", "0", "2/3", "3.0", "-7/2"], max);
    let lr = &lists;
    let part = par::sweep(
        (lists.len() * FOLD3.len()) as u64,
        256,
        |_| setup_interp(&sp.g),
        |it, acc, i| {
            let op = FOLD3[i as usize % FOLD3.len()];
            let idx = &lr[i as usize / FOLD3.len()];
            let out = it.eval(&case_text(op, idx));
            let args: Vec<RNum> = idx.iter().map(|k| sp.g[*k].val).collect();
            acc.evals += 1;
            if !fold_fits(op, &args) {
                // the exact value has components beyond 2^60: the i128 reference cannot name it; only "no panic other than overflow" is asked
                acc.count("scale ladder: exact value beyond the reference's range (not judged beyond no-crash)", 1);
                if let Outcome::Panic(m) = &out {
                    if panic_class(m) != "arith-overflow" {
                        acc.mismatch(Mismatch { idx: 5_000_000_000 + i, case: case_pretty(&sp.g, op, idx), expected: "a value or an overflow".into(), observed: format!("{}", out), payload: json!({"kind":"op","op":op,"operands": idx.iter().map(|k| sp.g[*k].text.clone()).collect::<Vec<_>>() }) }, None);
                    }
                }
                return;
            }
            acc.count("scale ladder: operand lists of length 3..N", 1);
            acc.distinct_hash(hash_of(&(op, &out)));
            match judge(op, &args, &out) {
                Verdict::Ok => {}
                Verdict::Excluded(why) => acc.exclude(why, || format!("{} => {}", case_pretty(&sp.g, op, idx), out)),
                Verdict::Bad(why) => acc.mismatch(
                    Mismatch {
                        idx: 5_000_000_000 + i,
                        case: format!("[{} operands] {}", idx.len(), case_pretty(&sp.g, op, idx)),
                        expected: why,
                        observed: format!("{}", out),
                        payload: json!({"kind":"op","op":op,"operands": idx.iter().map(|k| sp.g[*k].text.clone()).collect::<Vec<_>>() }),
                    },
                    None,
                ),
            }
        },
    );
    acc.merge(part);
}

pub fn run(ctx: &Ctx) -> i32 {
    let sp = Space::new(ctx.thorough());
    let total = sp.total();
    // the grid bindings themselves must denote the intended numbers
    let mut acc0 = Acc::new();
    {
        let mut it = setup_interp(&sp.g);
        for (i, x) in sp.g.iter().enumerate() {
            let o = it.eval(&format!("g{}", i));
            let ok = matches!(&o, Outcome::Val(v) if refnum::matches(&x.val, v));
            acc0.evals += 1;
            if !ok {
                acc0.mismatch(
                    Mismatch { idx: i as u64, case: x.text.clone(), expected: format!("{}", x.val), observed: format!("{}", o), payload: json!({"kind":"grid","text":x.text}) },
                    None,
                );
            }
        }
    }
    let sp_ref = &sp;
    let mut acc = par::sweep(
        total,
        4096,
        |_| setup_interp(&sp_ref.g),
        |it, acc, i| {
            let (op, idx) = sp_ref.case(i);
            let text = case_text(op, &idx);
            let out = it.eval(&text);
            let args: Vec<RNum> = idx.iter().map(|k| sp_ref.g[*k].val).collect();
            acc.evals += 1;
            acc.outcome_class(&out.class());
            acc.distinct_hash(hash_of(&(op, &out)));
            if i % (total / 7 + 1) == 0 {
                acc.sample(i, json!({"case": case_pretty(&sp_ref.g, op, &idx), "observed": format!("{}", out)}));
            }
            match judge(op, &args, &out) {
                Verdict::Ok => {}
                Verdict::Excluded(why) => acc.exclude(why, || format!("{} => {}", case_pretty(&sp_ref.g, op, &idx), out)),
                Verdict::Bad(why) => acc.mismatch(
                    Mismatch {
                        idx: i + 1000,
                        case: case_pretty(&sp_ref.g, op, &idx),
                        expected: why,
                        observed: format!("{}", out),
                        payload: json!({"kind":"op","op":op,"operands": idx.iter().map(|k| sp_ref.g[*k].text.clone()).collect::<Vec<_>>() }),
                    },
                    None,
                ),
            }
        },
    );
    acc.merge(acc0);
    history_phase(&sp, &mut acc);
    let scale = if ctx.thorough() { 300 } else { 100 };
    scale_phase(&sp, &mut acc, scale);
    euclid_phase(&sp, &mut acc);
    report::finish(
        acc,
        RunInfo {
            id: "C09".into(),
            tier: ctx.tier_name(),
            seed: ctx.seed,
            exhaustive: true,
            rule: format!("every unary op {:?} on G, every binary op {:?} on G^2, every 3-operand fold {:?} on G^3; every history (one of 20 first calls: failures part-way through an operation, successful calls that reduce ratios or leave the exact range) x (every unary / binary operation on a 12-number sub-grid) on one interpreter; every fold on operand lists of every length 3..N (all the same value, two values alternating, one operand of another kind first / in the middle / last; 9 values); quotients of Fibonacci numbers up to F(46) (Euclid depth 1..44), both signs, as divisions and as ratio literals; |G|={} (literals and computed values); distinct = distinct (operation, outcome) pairs", UNARY, BINARY, FOLD3, sp.g.len()),
            bounds: json!({"grid": sp.g.len(), "unary": sp.n1, "binary": sp.n2, "fold3": sp.n3, "scale_ladder_max_operands": scale, "overflow_checks": cfg!(debug_assertions)}),
            assumptions: vec![
                "reference numeric tower (refnum: i128 rationals, Rust f32 IEEE ops) is correct; self-tested against R7RS 6.2.6 examples".into(),
                "real literals denote the binary32 nearest to the decimal via f64".into(),
            ],
            wall_s: ctx.elapsed(),
            extra: json!({"grid": sp.g.iter().map(|x| x.text.clone()).collect::<Vec<_>>()}),
        },
    )
}

/// replay: payload {"kind":"op","op":..,"operands":[texts]} — plain evaluation, no enumerator
pub fn replay(p: &serde_json::Value) -> bool {
    let g = grid(true);
    let mut it = Interp::new().unwrap();
    if p["kind"] == "grid" {
        let t = p["text"].as_str().unwrap();
        let x = g.iter().find(|x| x.text == t).expect("grid text");
        let o = it.eval(t);
        println!("{} => {} (reference {})", t, o, x.val);
        return !matches!(&o, Outcome::Val(v) if refnum::matches(&x.val, v));
    }
    if p["kind"] == "euclid" {
        let (text, op, args) = euclid_variants(p["a"].as_i64().unwrap() as i128, p["b"].as_i64().unwrap() as i128).remove(p["variant"].as_u64().unwrap() as usize);
        let out = it.eval(&text);
        println!("{} => {}", text, out);
        return matches!(judge(op, &args, &out), Verdict::Bad(_));
    }
    let op = p["op"].as_str().unwrap();
    let ops: Vec<String> = p["operands"].as_array().unwrap().iter().map(|x| x.as_str().unwrap().to_string()).collect();
    let args: Vec<RNum> = ops.iter().map(|t| g.iter().find(|x| &x.text == t).expect("grid text").val).collect();
    let text = format!("({} {})", op, ops.join(" "));
    if let Some(first) = p["after"].as_str() {
        println!("{} => {}", first, it.eval(first));
    }
    let out = it.eval(&text);
    let mut rr = RefRun::new();
    println!("{} => {}   reference: {:?}", text, out, reference(op, &args, &mut rr).map(|r| r.to_string()));
    matches!(judge(op, &args, &out), Verdict::Bad(_))
}

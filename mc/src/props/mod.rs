pub mod c01;
pub mod c02;
pub mod c03;
pub mod c04;
pub mod c05;
pub mod c06;
pub mod c07;
pub mod c08;
pub mod c09;
pub mod c10;
pub mod c11;
pub mod c12;
pub mod c13;
pub mod c14;
pub mod c15;
pub mod c16;
pub mod c17;
pub mod c18;
pub mod c19;

use crate::Ctx;

pub fn run(ctx: &Ctx) -> i32 {
    match ctx.id.as_str() {
        "C01" => c01::run(ctx),
        "C02" => c02::run(ctx),
        "C03" => c03::run(ctx),
        "C04" => c04::run(ctx),
        "C05" => c05::run(ctx),
        "C06" => c06::run(ctx),
        "C07" => c07::run(ctx),
        "C08" => c08::run(ctx),
        "C09" => c09::run(ctx),
        "C10" => c10::run(ctx),
        "C11" => c11::run(ctx),
        "C12" => c12::run(ctx),
        "C13" => c13::run(ctx),
        "C14" => c14::run(ctx),
        "C15" => c15::run(ctx),
        "C16" => c16::run(ctx),
        "C17" => c17::run(ctx),
        "C18" => c18::run(ctx),
        "C19" => c19::run(ctx),
        other => {
            eprintln!("MACHINERY-ERROR unknown property {}", other);
            2
        }
    }
}

pub fn replay(id: &str, payload: &serde_json::Value) -> bool {
    match id {
        "C01" => c01::replay(payload),
        "C02" => c02::replay(payload),
        "C03" => c03::replay(payload),
        "C04" => c04::replay(payload),
        "C05" => c05::replay(payload),
        "C06" => c06::replay(payload),
        "C07" => c07::replay(payload),
        "C08" => c08::replay(payload),
        "C09" => c09::replay(payload),
        "C10" => c10::replay(payload),
        "C11" => c11::replay(payload),
        "C12" => c12::replay(payload),
        "C13" => c13::replay(payload),
        "C14" => c14::replay(payload),
        "C15" => c15::replay(payload),
        "C16" => c16::replay(payload),
        "C17" => c17::replay(payload),
        "C18" => c18::replay(payload),
        "C19" => c19::replay(payload),
        other => {
            eprintln!("MACHINERY-ERROR no replay for {}", other);
            std::process::exit(2)
        }
    }
}

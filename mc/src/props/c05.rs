//! C05 — derived forms behave as R7RS specifies.
//! E-sweep: every shape of every derived form with ticking sub-forms under every truth assignment,
//! every pair (thorough: triple) of forms nested in every sub-form position, three evaluation
//! contexts, and the hygiene facet (surrounding identifiers / rebinding of template identifiers).
use crate::drive::{Interp, Outcome};
use crate::refsem::{outcome_matches, show_result, Machine, Policy, Quirks, POLICIES};
use crate::report::{self, hash_of, Acc, Mismatch, RunInfo};
use crate::sexp::{parse1, Sx};
use crate::{par, Ctx};
use serde_json::json;

#[derive(Clone)]
pub struct Case {
    pub forms: Vec<Sx>,
    pub tags: Vec<String>,
}

/// placeholder kinds in shape templates: Tn test, En expression, Fn receiver procedure
fn placeholders(x: &Sx, out: &mut Vec<String>) {
    match x {
        Sx::Sym(s) => {
            let b = s.as_bytes();
            if b.len() >= 2 && matches!(b[0], b'T' | b'E' | b'F') && b[1..].iter().all(|c| c.is_ascii_digit()) && !out.contains(s) {
                out.push(s.clone());
            }
        }
        Sx::List(v) => {
            // do not descend into quoted data or case datum lists
            if v.first().and_then(|h| h.as_sym()) == Some("quote") {
                return;
            }
            for i in v {
                placeholders(i, out);
            }
        }
        _ => {}
    }
}

fn subst(x: &Sx, f: &dyn Fn(&str) -> Option<Sx>) -> Sx {
    match x {
        Sx::Sym(s) => f(s).unwrap_or_else(|| x.clone()),
        Sx::List(v) => {
            if v.first().and_then(|h| h.as_sym()) == Some("quote") {
                return x.clone();
            }
            Sx::List(v.iter().map(|i| subst(i, f)).collect())
        }
        o => o.clone(),
    }
}

fn tick(k: i64, v: Sx) -> Sx {
    Sx::List(vec![Sx::Sym("tick".into()), Sx::Int(k), v])
}

const TRUTH: [&str; 3] = ["#f", "#t", "7"];

/// all shapes: (family, template text)
pub fn shapes() -> Vec<(&'static str, String)> {
    let mut out: Vec<(&'static str, String)> = vec![];
    for t in ["(begin E1)", "(begin E1 E2)", "(begin E1 E2 E3)"] {
        out.push(("begin", t.into()));
    }
    for t in [
        "(let () E1)",
        "(let () E1 E2)",
        "(let ((p E1)) p)",
        "(let ((p E1)) E2 p)",
        "(let ((p E1) (q E2)) (list p q))",
        "(let ((p E1) (q E2)) E3 (list q p))",
        "(let ((p 1)) (let ((p E1) (q p)) (list p q)))",
        "(let ((p 1) (q 2)) (let ((p q) (q p)) (list p q E1)))",
    ] {
        out.push(("let", t.into()));
    }
    for t in [
        "(let* () E1)",
        "(let* () E1 E2)",
        "(let* ((p E1)) p)",
        "(let* ((p E1)) E2 p)",
        "(let* ((p E1) (q (list p E2))) q)",
        "(let* ((p E1) (q (list p E2))) E3 (list p q))",
        "(let* ((p E1) (p (list p E2)) (q (list p E3))) q)",
        "(let ((p 1)) (let* ((p E1) (q p)) (list p q)))",
        "(let* ((p E1) (q E2) (s (list q p E3))) s)",
    ] {
        out.push(("let*", t.into()));
    }
    // cond: sequences of 1..3 clauses; `else` only last
    let non_else = |i: usize| -> Vec<String> {
        vec![
            format!("(T{0} E{0})", i),
            format!("(T{0} E{0} E{1})", i, i + 3),
            format!("(T{0})", i),
            format!("(T{0} => F{0})", i),
        ]
    };
    let elses = |i: usize| -> Vec<String> { vec![format!("(else E{0})", i), format!("(else E{0} E{1})", i, i + 3)] };
    for c1 in non_else(1).into_iter().chain(elses(1)) {
        out.push(("cond", format!("(cond {})", c1)));
    }
    for c1 in non_else(1) {
        for c2 in non_else(2).into_iter().chain(elses(2)) {
            out.push(("cond", format!("(cond {} {})", c1, c2)));
        }
    }
    for c1 in non_else(1) {
        for c2 in non_else(2) {
            for c3 in non_else(3).into_iter().chain(elses(3)) {
                out.push(("cond", format!("(cond {} {} {})", c1, c2, c3)));
            }
        }
    }
    // case: key x clause sequences
    // (the last two keys carry a probe: the key is evaluated exactly once, whichever clause matches)
    let keys = ["1", "2", "3", "'a", "(- 3 1)", "(car '(b))", "(tick 90 2)", "(tick 91 'a)", "(tick 92 9)"];
    let cnon = |i: usize| -> Vec<String> {
        vec![
            format!("((1 4) E{0})", i),
            format!("((2) E{0} E{1})", i, i + 3),
            format!("((a b) E{0})", i),
            format!("((2 3) => F{0})", i),
        ]
    };
    let celse = |i: usize| -> Vec<String> { vec![format!("(else E{0})", i), format!("(else => F{0})", i)] };
    for k in keys {
        for c1 in cnon(1).into_iter().chain(celse(1)) {
            out.push(("case", format!("(case {} {})", k, c1)));
        }
        for c1 in cnon(1) {
            for c2 in cnon(2).into_iter().chain(celse(2)) {
                out.push(("case", format!("(case {} {} {})", k, c1, c2)));
            }
        }
    }
    // data of a case clause are compared with eqv?: a freshly made list or vector is never eqv? to
    // a datum of the same shape, the empty list always is
    for (k, d) in [("(list 1 2)", "(1 2)"), ("(vector 1)", "#(1)"), ("(list)", "()"), ("(cdr (list 1))", "()"), ("(list 1)", "(1)"), ("1", "(1)"), ("'(1 2)", "1"), ("(* 1.0 2)", "2"), ("2", "2.0"), ("(/ 4 2)", "2.0"), ("2.5", "5/2")] {
        out.push(("case", format!("(case {} (({}) E1) (else E2))", k, d)));
        out.push(("case", format!("(case {} ((0 {}) E1))", k, d)));
        out.push(("case", format!("(case {} (({} 5) => F1) (else => F2))", k, d)));
    }
    for k in ["2", "'a", "(- 3 1)"] {
        for c1 in cnon(1) {
            for c2 in cnon(2) {
                for c3 in cnon(3).into_iter().chain(celse(3)) {
                    out.push(("case", format!("(case {} {} {} {})", k, c1, c2, c3)));
                }
            }
        }
    }
    for t in ["(and)", "(and T1)", "(and T1 T2)", "(and T1 T2 T3)"] {
        out.push(("and", t.into()));
    }
    for t in ["(or)", "(or T1)", "(or T1 T2)", "(or T1 T2 T3)"] {
        out.push(("or", t.into()));
    }
    for t in ["(when T1 E1)", "(when T1 E1 E2)", "(when T1 E1 E2 E3)"] {
        out.push(("when", t.into()));
    }
    for t in ["(unless T1 E1)", "(unless T1 E1 E2)", "(unless T1 E1 E2 E3)"] {
        out.push(("unless", t.into()));
    }
    out
}

/// instantiate a template: placeholder i of kind T gets truth value truth[i], every placeholder
/// is wrapped in a tick with label base+position; `override_` replaces one placeholder by a form
fn instantiate(t: &Sx, truth: &[usize], base: i64, override_: Option<(&str, &Sx)>, read_id: Option<&str>) -> Sx {
    let mut ph = vec![];
    placeholders(t, &mut ph);
    let tests: Vec<&String> = ph.iter().filter(|p| p.starts_with('T')).collect();
    subst(t, &|s: &str| {
        let pos = ph.iter().position(|p| p == s)?;
        if let Some((name, form)) = override_ {
            if name == s {
                return Some(form.clone());
            }
        }
        let k = base + pos as i64 + 1;
        Some(match s.as_bytes()[0] {
            b'T' => {
                let ti = tests.iter().position(|p| p.as_str() == s).unwrap();
                let tv = truth.get(ti).copied().unwrap_or(1) % 3;
                match read_id {
                    // hygiene facet: the test reads the surrounding user variable (bound to 5)
                    Some(id) => tick(
                        k,
                        match tv {
                            0 => parse1(&format!("(not {})", id)),
                            1 => parse1(&format!("(if {} #t #f)", id)),
                            _ => parse1(&format!("(list 7 {})", id)),
                        },
                    ),
                    None => tick(k, parse1(TRUTH[tv])),
                }
            }
            b'E' => match read_id {
                // hygiene facet: expression positions read the surrounding user variable
                Some(id) => tick(k, Sx::List(vec![Sx::Sym("list".into()), Sx::Int(10 * k), Sx::Sym(id.into())])),
                None => tick(k, Sx::Int(10 * k)),
            },
            _ => tick(k, parse1("(lambda (v) (list 'r v))")),
        })
    })
}

fn n_tests(t: &Sx) -> usize {
    let mut ph = vec![];
    placeholders(t, &mut ph);
    ph.iter().filter(|p| p.starts_with('T')).count()
}

fn assignments(n: usize) -> Vec<Vec<usize>> {
    let mut out = vec![vec![]];
    for _ in 0..n {
        let mut next = vec![];
        for a in &out {
            for v in 0..3 {
                let mut b = a.clone();
                b.push(v);
                next.push(b);
            }
        }
        out = next;
    }
    out
}

/// the three evaluation contexts of a form
fn contexts(form: &Sx) -> Vec<(&'static str, Vec<Sx>)> {
    vec![
        ("top-level", vec![form.clone()]),
        ("tail-of-procedure", vec![Sx::List(vec![Sx::Sym("define".into()), Sx::List(vec![Sx::Sym("proc".into())]), form.clone()]), parse1("(proc)")]),
        ("operand", vec![Sx::List(vec![Sx::Sym("list".into()), Sx::Int(0), form.clone()])]),
        // the form handed to a user-defined macro whose expansion evaluates it once, as an operand
        ("through-user-macro", vec![parse1("(define-syntax wrap-once (syntax-rules () ((wrap-once e) (list 0 e 1))))"), Sx::List(vec![Sx::Sym("wrap-once".into()), form.clone()])]),
        (
            "non-tail-in-procedure",
            vec![
                Sx::List(vec![
                    Sx::Sym("define".into()),
                    Sx::List(vec![Sx::Sym("proc2".into())]),
                    Sx::List(vec![Sx::Sym("list".into()), form.clone(), Sx::Int(1)]),
                ]),
                parse1("(proc2)"),
            ],
        ),
    ]
}

/// identifiers that occur in the bundled grammar.sld (candidates for capture)
pub const GRAMMAR_IDS: &[&str] = &[
    "x", "temp", "atom-key", "test", "result", "key", "name", "val", "body", "exp1", "clause", "clauses", "atoms", "test1", "test2", "result1", "result2",
    "name1", "val1", "name2", "val2",
];
pub const TEMPLATE_FREE_IDS: &[&str] = &["not", "memv", "null?", "list", "car"];

/// a representative subset of shapes (for nesting): (family, template, fixed truth assignment)
fn representatives() -> Vec<(&'static str, Sx, Vec<usize>)> {
    let t = |s: &str| parse1(s);
    vec![
        ("begin", t("(begin E1 E2)"), vec![]),
        ("let", t("(let ((p E1) (q E2)) (list p q))"), vec![]),
        ("let", t("(let ((p E1)) E2 p)"), vec![]),
        ("let*", t("(let* ((p E1) (q (list p E2))) q)"), vec![]),
        ("cond", t("(cond (T1 E1) (else E2))"), vec![0]),
        ("cond", t("(cond (T1 E1) (else E2))"), vec![1]),
        ("cond", t("(cond (T1 => F1) (T2 E2))"), vec![2, 0]),
        ("cond", t("(cond (T1 => F1) (T2 E2))"), vec![0, 1]),
        ("cond", t("(cond (T1) (T2 E2 E5))"), vec![2, 0]),
        ("cond", t("(cond (T1) (T2 E2 E5))"), vec![0, 0]),
        ("case", t("(case (- 3 1) ((1 4) E1) ((2 3) => F2) (else E3))"), vec![]),
        ("case", t("(case 'a ((1 4) E1) ((a b) E2 E5))"), vec![]),
        ("case", t("(case 3 ((1 4) E1) (else => F2))"), vec![]),
        ("case", t("(case 9 ((1 4) E1) ((2) E2))"), vec![]),
        ("and", t("(and T1 T2)"), vec![1, 2]),
        ("and", t("(and T1 T2)"), vec![0, 1]),
        ("and", t("(and T1 T2 T3)"), vec![2, 1, 0]),
        ("or", t("(or T1 T2)"), vec![0, 2]),
        ("or", t("(or T1 T2)"), vec![0, 0]),
        ("or", t("(or T1 T2 T3)"), vec![0, 0, 1]),
        ("when", t("(when T1 E1 E2)"), vec![1]),
        ("when", t("(when T1 E1 E2)"), vec![0]),
        ("unless", t("(unless T1 E1 E2)"), vec![0]),
        ("unless", t("(unless T1 E1 E2)"), vec![2]),
    ]
}

pub fn cases(thorough: bool) -> Vec<Case> {
    let mut out = vec![];
    let sh = shapes();
    // (1)+(3): every shape x every truth assignment x three contexts
    for (fam, text) in &sh {
        let t = parse1(text);
        for a in assignments(n_tests(&t)) {
            let form = instantiate(&t, &a, 0, None, None);
            for (cname, forms) in contexts(&form) {
                out.push(Case { forms, tags: vec![format!("form={}", fam), format!("ctx={}", cname), "single".into()] });
            }
        }
    }
    // (1b) scoping of let / let* initialisers against variables of the enclosing (top-level)
    // scope, with the form itself in every context (so that it is also evaluated in NON-tail position)
    for text in [
        "(let ((p E1) (q p)) (list p q))",
        "(let ((p q) (q p)) (list p q E1))",
        "(let ((p E1) (q (list p))) (list p q))",
        "(let* ((p E1) (q p)) (list p q))",
        "(let* ((p q) (q p)) (list p q E1))",
        "(let ((p E1)) (let ((q p) (p q)) (list p q)))",
        "(let ((s E1) (p (list p q))) (list s p q))",
        "(let ((p E1) (q E2) (s (list p q))) s)",
        "(let* ((s p) (p E1) (q (list s p q))) q)",
    ] {
        let t = parse1(text);
        let form = instantiate(&t, &[], 0, None, None);
        for (cname, forms) in contexts(&form) {
            let mut fs = vec![parse1("(define p 1)"), parse1("(define q 2)")];
            fs.extend(forms);
            out.push(Case { forms: fs, tags: vec!["form=let-scope".into(), format!("ctx={}", cname), "single".into()] });
        }
        // as an argument of a procedure call inside a procedure body (non-tail, nested)
        let wrapped = Sx::List(vec![Sx::Sym("list".into()), Sx::Int(0), form.clone()]);
        let mut fs = vec![parse1("(define p 1)"), parse1("(define q 2)")];
        fs.push(Sx::List(vec![Sx::Sym("define".into()), Sx::List(vec![Sx::Sym("proc".into())]), wrapped, Sx::Int(9)]));
        fs.push(parse1("(proc)"));
        out.push(Case { forms: fs, tags: vec!["form=let-scope".into(), "ctx=non-tail-body-expression".into(), "single".into()] });
    }
    // (1c) the scopes the binding forms create, observed through closures made before a shadowing
    // binding and through assignments inside the scope; the enclosing (top-level) p and q are
    // read back afterwards
    for text in [
        "(let ((g (lambda () p))) (let ((p E1)) (list p (g))))",
        "(let ((p E1)) (let ((g (lambda () p))) (let ((p E2)) (list p (g)))))",
        "(let ((p E1)) (let ((g (lambda () p))) (let* ((p E2) (q (list p (g)))) (list p q (g)))))",
        "(let* ((p E1) (g (lambda () p)) (p E2)) (list p (g)))",
        "(let ((p E1)) (let ((g (lambda () p))) (begin (let ((p E2)) (list p (g))))))",
        "(let ((p E1)) (let ((g (lambda () p))) (cond (#t (let ((p E2)) (list p (g)))))))",
        "(let ((p E1)) (let ((g (lambda () p))) (when #t (let ((p E2)) (list p (g))))))",
        "(let ((p E1)) (let ((g (lambda (p) (list p)))) (let ((p E2)) (list p (g 0)))))",
        "(let ((p E1)) (set! p (list p)) p)",
        "(let ((p E1)) (when #t (set! p (list p 'w))) (unless #f (set! p (list p 'u))) p)",
        "(let* ((p E1) (p (list p))) (set! p (list p 's)) p)",
        "(let ((p E1)) (cond (#t (set! p (list p 'c)))) (list p))",
        "(let ((p E1)) (case 1 ((1) (set! p (list p 'k)))) (list p))",
        "(let ((p E1)) (begin (set! q p) q))",
        "(let ((p E1)) (let ((q E2)) (set! p (list p q)) (set! q 0) (list p q)))",
        "(let ((p E1)) (let ((p E2)) (set! p 0)) p)",
        "(let ((p E1)) (let ((g (lambda () (set! p (list p 'g))))) (let ((p E2)) (g) (list p))))",
        "(let ((p E1) (q E2)) (and (set! p q) #t) (or #f (set! q 0)) (list p q))",
        // bodies with internal definitions: the definitions belong to the body's own scope, also
        // when the binding list is empty
        "(let () (define p E1) (list p q))",
        "(let () (define p E1) (set! p (list p)) p)",
        "(let* () (define q E1) (define (g) q) (list p (g)))",
        "(let ((q E1)) (let () (define p q) (list p q)))",
        "(let ((p E1)) (define q (list p)) (list p q))",
        "(let* ((p E1) (q E2)) (define s (list p q)) s)",
        "(let ((mk (lambda () (let () (define p 0) (lambda () (set! p (+ p 1)) p))))) (let ((c1 (mk)) (c2 (mk))) (list (c1) (c1) (c2) E1)))",
        "(let ((mk (lambda () (let* () (define p 0) (lambda () (set! p (+ p 1)) p))))) (let* ((c1 (mk)) (c2 (mk))) (list (c1) (c2) (c2) E1)))",
    ] {
        let t = parse1(text);
        let form = instantiate(&t, &[], 0, None, None);
        for (cname, forms) in contexts(&form) {
            let mut fs = vec![parse1("(define p 1)"), parse1("(define q 2)")];
            fs.extend(forms);
            fs.push(parse1("(list p q)"));
            out.push(Case { forms: fs, tags: vec!["form=let-scope-closures-assignment".into(), format!("ctx={}", cname), "single".into()] });
        }
    }
    // (2): every pair nested in every sub-form position (thorough: triples)
    let reps = representatives();
    for (ofam, ot, oa) in &reps {
        let mut ph = vec![];
        placeholders(ot, &mut ph);
        for pos in &ph {
            if pos.starts_with('F') {
                continue;
            }
            for (ifam, it, ia) in &reps {
                let inner = instantiate(it, ia, 100, None, None);
                let pair = instantiate(ot, oa, 0, Some((pos, &inner)), None);
                for (cname, forms) in contexts(&pair) {
                    out.push(Case { forms, tags: vec![format!("form={}", ofam), format!("inner={}", ifam), format!("ctx={}", cname), "pair".into()] });
                }
                if thorough {
                    let mut iph = vec![];
                    placeholders(it, &mut iph);
                    for ipos in &iph {
                        if ipos.starts_with('F') {
                            continue;
                        }
                        for (_f3, t3, a3) in &reps {
                            let innermost = instantiate(t3, a3, 200, None, None);
                            let inner2 = instantiate(it, ia, 100, Some((ipos, &innermost)), None);
                            let triple = instantiate(ot, oa, 0, Some((pos, &inner2)), None);
                            out.push(Case { forms: vec![triple], tags: vec![format!("form={}", ofam), "triple".into(), "ctx=top-level".into()] });
                        }
                    }
                }
            }
        }
    }
    // (4) hygiene facet: a surrounding user variable named like an identifier of the bundled
    // macro file, read inside the form
    for (fam, t, a) in &reps {
        for id in GRAMMAR_IDS {
            let form = instantiate(t, a, 0, None, Some(id));
            let wrapped = Sx::List(vec![Sx::Sym("let".into()), Sx::List(vec![Sx::List(vec![Sx::Sym(id.to_string()), Sx::Int(5)])]), form.clone()]);
            out.push(Case { forms: vec![wrapped], tags: vec![format!("form={}", fam), "hygiene".into(), format!("user-var={}", id)] });
            // the same with a top-level variable
            out.push(Case {
                forms: vec![Sx::List(vec![Sx::Sym("define".into()), Sx::Sym(id.to_string()), Sx::Int(5)]), form],
                tags: vec![format!("form={}", fam), "hygiene".into(), format!("user-var={}", id), "toplevel-var".into()],
            });
        }
        // the user rebinding a free identifier the templates rely on
        for id in TEMPLATE_FREE_IDS {
            let form = instantiate(t, a, 0, None, None);
            let wrapped = Sx::List(vec![
                Sx::Sym("let".into()),
                Sx::List(vec![Sx::List(vec![Sx::Sym(id.to_string()), parse1("(lambda args 'user)")])]),
                form,
            ]);
            // forms that themselves call `list` in the template text are skipped for id=list
            if wrapped.to_string().contains("(list ") && *id == "list" || wrapped.to_string().contains("(car ") && *id == "car" {
                continue;
            }
            out.push(Case { forms: vec![wrapped], tags: vec![format!("form={}", fam), "hygiene".into(), format!("user-rebinds={}", id)] });
        }
    }
    // (5) history facet: N derived-form uses that are rejected (no rule matches, also nested inside
    // valid forms), then valid forms on the same interpreter and thread
    for n in [10usize, 130, 300, 1100] {
        for (fam, t, a) in &reps {
            let form = instantiate(t, a, 0, None, None);
            out.push(Case { forms: vec![form], tags: vec![format!("form={}", fam), format!("after-rejected-forms={}", n)] });
        }
    }
    // the same with the valid form evaluated after EVERY rejected one (a failure that shows only
    // at one particular count of earlier rejections, and heals itself, is still seen)
    for (fam, t, a) in &reps {
        let form = instantiate(t, a, 0, None, None);
        out.push(Case { forms: vec![form], tags: vec![format!("form={}", fam), "probe-after-each-rejected-form=1200".into()] });
    }
    // sub-forms that are calls WITHOUT operands (a nullary ticking procedure): the key of a case, the
    // test of a cond clause, operands of and / or, bodies - each evaluated exactly as often as a
    // compound sub-form with operands would be
    let nullary = ["(define (k0) (tick 90 2))", "(define (f0) (tick 91 #f))"];
    for text in [
        "(case (k0) ((1) 'one) ((2) 'two) (else 'other))",
        "(case (k0) ((5) 'five) ((2) 'two) ((1) 'one) (else 'other))",
        "(case (k0) ((5) 'five) ((7) 'seven) (else 'other))",
        "(case (k0) (else 'only))",
        "(case (k0) ((2) => (lambda (x) (list x))) (else 'no))",
        "(case (k0) ((1) 'one) (else => (lambda (x) (list x 'else))))",
        "(case (f0) ((#f) 'false) (else 'other))",
        "(cond ((k0)) (else 'no))",
        "(cond ((f0)) ((k0)) (else 'no))",
        "(cond ((f0) 'a) ((k0) => list) (else 'no))",
        "(cond ((f0) 'a) ((f0) 'b) (else (k0)))",
        "(and (k0) (f0) (k0))",
        "(and (k0) (k0))",
        "(or (f0) (k0) (f0))",
        "(or (f0) (f0))",
        "(when (k0) (f0) (k0))",
        "(unless (f0) (k0) (f0))",
        "(let ((a (k0)) (b (f0))) (list a b))",
        "(let* ((a (k0)) (b (k0))) (list a b))",
        "(begin (k0) (f0))",
    ] {
        let form = parse1(text);
        for (cname, forms) in contexts(&form) {
            let mut all: Vec<Sx> = nullary.iter().map(|d| parse1(d)).collect();
            all.extend(forms);
            out.push(Case { forms: all, tags: vec![format!("form={}", text.split(|c: char| c == ' ' || c == '(').nth(1).unwrap_or("")), format!("ctx={}", cname), "nullary-subforms".into()] });
        }
    }
    // scale ladders: every derived form at every width N (bindings, clauses, data, operands, body
    // forms) and nesting depth D - a fast path for short forms or a bounded table shows here
    let width = if thorough { 300 } else { 120 };
    for n in 1..=width {
        let mid = (n + 1) / 2;
        let tk = |i: usize, v: &str| format!("(tick {} {})", i, v);
        let seq = |f: &dyn Fn(usize) -> String| (1..=n).map(|i| f(i)).collect::<Vec<_>>().join(" ");
        let mut texts: Vec<(&str, String)> = vec![];
        texts.push(("let", format!("(let ({}) (list v1 v{} v{}))", seq(&|i| format!("(v{} {})", i, tk(i, &i.to_string()))), mid, n)));
        texts.push(("let*", format!("(let* ((v1 (tick 1 1)) {}) (list v1 v{} v{}))", (2..=n).map(|i| format!("(v{} (tick {} (- v{} -1)))", i, i, i - 1)).collect::<Vec<_>>().join(" "), mid, n)));
        texts.push(("let*", format!("(let* ((x 0) {}) x)", seq(&|i| format!("(x (tick {} (- x -1)))", i)))));
        texts.push(("cond", format!("(cond {} (else 'none))", seq(&|i| format!("({} 'c{})", tk(i, if i == n { "#t" } else { "#f" }), i)))));
        texts.push(("cond", format!("(cond {} (else (tick 999 'none)))", seq(&|i| format!("({} 'c{})", tk(i, "#f"), i)))));
        texts.push(("cond", format!("(cond {} (else 'none))", seq(&|i| if i == n { format!("({} => (lambda (x) (list x 'arrow)))", tk(i, &i.to_string())) } else { format!("({})", tk(i, "#f")) }))));
        texts.push(("case", format!("(case (tick 0 {}) {} (else 'none))", n, seq(&|i| format!("(({}) 'c{})", i, i)))));
        texts.push(("case", format!("(case (tick 0 {}) {} (else 'none))", n + 1, seq(&|i| format!("(({}) 'c{})", i, i)))));
        texts.push(("case", format!("(case (tick 0 {}) (({}) 'hit) (else 'none))", n, seq(&|i| i.to_string()))));
        texts.push(("case", format!("(case (tick 0 {}) (({}) 'hit) (else 'none))", n + 1, seq(&|i| i.to_string()))));
        texts.push(("and", format!("(and {})", seq(&|i| tk(i, &i.to_string())))));
        texts.push(("and", format!("(and {})", seq(&|i| tk(i, if i == mid { "#f" } else { "1" })))));
        texts.push(("or", format!("(or {})", seq(&|i| tk(i, if i == n { "7" } else { "#f" })))));
        texts.push(("or", format!("(or {})", seq(&|i| tk(i, "#f")))));
        texts.push(("begin", format!("(begin {})", seq(&|i| tk(i, &i.to_string())))));
        texts.push(("when", format!("(when (tick 0 #t) {})", seq(&|i| tk(i, &i.to_string())))));
        texts.push(("unless", format!("(unless (tick 0 #f) {})", seq(&|i| tk(i, &i.to_string())))));
        texts.push(("let", format!("(let ((a 1)) {} a)", seq(&|i| format!("(set! a {})", tk(i, "(- a -1)"))))));
        // an outer variable read and assigned from the N-th sub-form (N scopes below its binding)
        let bump = "(begin (set! a (- a -1)) ";
        texts.push(("or", format!("(let ((a 0)) (or {}) a)", seq(&|_| format!("{}#f)", bump)))));
        texts.push(("and", format!("(let ((a 0)) (and {}) a)", seq(&|_| format!("{}#t)", bump)))));
        texts.push(("cond", format!("(let ((a 0)) (cond {} (else a)))", seq(&|_| format!("({}#f) 'no)", bump)))));
        texts.push(("let*", format!("(let ((a 0)) (let* ({}) (list a v1 v{})))", seq(&|i| format!("(v{} {}a))", i, bump)), n)));
        texts.push(("case", format!("(let ((a 0)) (case {} {} (else (set! a (- a -1)) a)))", n + 1, seq(&|i| format!("(({}) (set! a 'no))", i)))));
        texts.push(("when", format!("(let ((a 0)) (when #t {}) a)", seq(&|_| "(set! a (- a -1))".to_string()))));
        for (fam, text) in texts {
            let form = parse1(&text);
            for (cname, forms) in contexts(&form) {
                if cname != "top-level" && n % 4 != 0 {
                    continue;
                }
                out.push(Case { forms, tags: vec![format!("form={}", fam), format!("ctx={}", cname), "scale-width".into()] });
            }
        }
        if n <= 60 {
            let nest = |open: &dyn Fn(usize) -> String, core: &str, close: &str| {
                let mut s = String::new();
                for i in 1..=n {
                    s.push_str(&open(i));
                }
                s.push_str(core);
                for _ in 0..n {
                    s.push_str(close);
                }
                s
            };
            let deep: Vec<(&str, String)> = vec![
                ("let", nest(&|i| format!("(let ((a{} {})) ", i, tk(i, &i.to_string())), &format!("(list a1 a{} a{})", mid, n), ")")),
                ("let", format!("(let ((a 0)) {})", nest(&|i| format!("(let ((a {})) ", tk(i, "(- a -1)")), "a", ")"))),
                ("let*", nest(&|i| format!("(let* ((b{} {}) (c{} b{})) ", i, tk(i, &i.to_string()), i, i), &format!("(list c1 c{})", n), ")")),
                ("begin", nest(&|i| format!("(begin {} ", tk(i, "0")), "'in", ")")),
                ("when", nest(&|i| format!("(when {} ", tk(i, "#t")), "'in", ")")),
                ("unless", nest(&|i| format!("(unless {} ", tk(i, "#f")), "'in", ")")),
                ("cond", nest(&|i| format!("(cond ({} 'no) (else ", tk(i, "#f")), "'in", "))")),
                ("case", nest(&|i| format!("(case {} ((0) 'no) (else ", tk(i, "1")), "'in", "))")),
                ("and", nest(&|i| format!("(and {} ", tk(i, "1")), "'in", ")")),
                ("or", nest(&|i| format!("(or {} ", tk(i, "#f")), "'in", ")")),
                ("when", format!("(let ((a 0)) {} a)", nest(&|_| "(when #t (set! a (- a -1)) ".to_string(), "a", ")"))),
                ("let", format!("(let ((a 0)) {})", nest(&|i| format!("(let ((b{} a)) (set! a (- a -1)) ", i), &format!("(list a b1 b{})", n), ")"))),
            ];
            for (fam, text) in deep {
                let form = parse1(&text);
                for (cname, forms) in contexts(&form) {
                    out.push(Case { forms, tags: vec![format!("form={}", fam), format!("ctx={}", cname), "scale-depth".into()] });
                }
            }
        }
    }
    // top-level begin containing definitions, then a reference from the next form
    for t in ["(begin (define z (tick 1 1)) (tick 2 z))", "(begin (define (zf a) (list a)) (tick 1 0))"] {
        let first = parse1(t);
        let second = if t.contains("zf") { parse1("(zf (tick 3 3))") } else { parse1("(list z (tick 3 3))") };
        out.push(Case { forms: vec![first, second], tags: vec!["form=begin".into(), "toplevel-begin-with-definition".into()] });
    }
    out
}

pub struct CaseResult {
    pub ok: bool,
    pub expected: String,
    pub observed: String,
    pub obs_hash: u64,
    pub class: String,
}

pub const REJECTED: &[&str] = &["(when)", "(let)", "(cond)", "(case)", "(let* 1)", "(unless)", "(let ((a 1)) (list (when)))", "(begin (cond))", "(let ((a)) a)", "(let loop ((i 0)) i)", "(and . 1)", "(let (a) a)"];

pub fn judge(it: &mut Interp, forms: &[Sx], policy: Policy, quirks: Quirks) -> CaseResult {
    judge_after(it, forms, policy, quirks, 0)
}

pub fn judge_after(it: &mut Interp, forms: &[Sx], policy: Policy, quirks: Quirks, rejected_before: usize) -> CaseResult {
    let mut m = Machine::new(policy);
    m.quirks = quirks;
    it.fresh_frame();
    for k in 0..rejected_before {
        let t = REJECTED[k % REJECTED.len()];
        let o = it.eval(t);
        if matches!(o, Outcome::Val(_)) {
            return CaseResult { ok: false, expected: format!("{} is rejected", t), observed: format!("{}", o), obs_hash: 0, class: "accepted-malformed".into() };
        }
    }
    let (mut exp, mut obs) = (vec![], vec![]);
    let mut ok = true;
    let mut class = String::new();
    for f in forms {
        m.trace.clear();
        // the reference evaluator has no macro definitions: a `define-syntax` form is evaluated by
        // the implementation only, and a use of the harness's own `wrap-once` macro is what its
        // single rule says, (list 0 e 1)
        if matches!(f, Sx::List(v) if v.first() == Some(&Sx::Sym("define-syntax".into()))) {
            let o = it.eval(&f.to_string());
            if !matches!(o, Outcome::Val(_)) {
                return CaseResult { ok: false, expected: format!("{} is accepted", f), observed: format!("{}", o), obs_hash: 0, class: "definition-rejected".into() };
            }
            continue;
        }
        let reference_form = match f {
            Sx::List(v) if v.len() == 2 && v[0] == Sx::Sym("wrap-once".into()) => Sx::List(vec![Sx::Sym("list".into()), Sx::Int(0), v[1].clone(), Sx::Int(1)]),
            other => other.clone(),
        };
        let r = m.eval_top(&reference_form);
        let (o, trace) = it.eval_traced(&f.to_string());
        exp.push(format!("{} trace={:?}", show_result(&r), m.trace));
        obs.push(format!("{} trace={:?}", o, trace));
        class = o.class();
        if !(outcome_matches(&r, &o) && trace == m.trace) {
            ok = false;
            break;
        }
        if r.is_err() {
            break;
        }
    }
    CaseResult { ok, expected: exp.join(" ; "), observed: obs.join(" ; "), obs_hash: hash_of(&obs), class }
}

fn text(forms: &[Sx]) -> String {
    forms.iter().map(|f| f.to_string()).collect::<Vec<_>>().join("\n")
}

fn sweep(cs: &[Case], policy: Policy) -> Acc {
    let total = cs.len() as u64;
    par::sweep(
        total,
        256,
        |_| Interp::must_new(),
        |it, acc, i| {
            let c = &cs[i as usize];
            let rejected_before: usize = c.tags.iter().find_map(|t| t.strip_prefix("after-rejected-forms=").and_then(|n| n.parse().ok())).unwrap_or(0);
            let interleaved: usize = c.tags.iter().find_map(|t| t.strip_prefix("probe-after-each-rejected-form=").and_then(|n| n.parse().ok())).unwrap_or(0);
            let mut r = judge_after(it, &c.forms, policy, Quirks::default(), rejected_before);
            for k in 0..interleaved {
                if !r.ok {
                    break;
                }
                let o = it.eval(REJECTED[k % REJECTED.len()]);
                if matches!(o, Outcome::Val(_)) {
                    r.ok = false;
                    r.observed = format!("{} accepted: {}", REJECTED[k % REJECTED.len()], o);
                    break;
                }
                let again = judge_after(it, &c.forms, policy, Quirks::default(), 0);
                if !again.ok {
                    r = again;
                    r.expected = format!("[after {} rejected forms] {}", k + 1, r.expected);
                }
            }
            acc.evals += 1;
            for t in &c.tags {
                if !t.starts_with("user-") {
                    acc.count(t, 1);
                }
            }
            acc.outcome_class(&r.class);
            acc.distinct_hash(r.obs_hash);
            if i % (total / 6 + 1) == 0 {
                acc.sample(i, json!({"program": text(&c.forms), "tags": c.tags, "observed": r.observed}));
            }
            if !r.ok {
                // defect models: a case is a known finding only if it carries the facet AND the
                // defective semantics reproduces exactly what was observed
                let mut known = None;
                if c.tags.iter().any(|t| t == "hygiene") {
                    let d = judge(it, &c.forms, policy, Quirks { unhygienic: true, begin_local: false });
                    if d.ok {
                        known = Some("derived-forms-unhygienic");
                    }
                }
                if c.tags.iter().any(|t| t == "toplevel-begin-with-definition") {
                    let d = judge(it, &c.forms, policy, Quirks { unhygienic: false, begin_local: true });
                    if d.ok {
                        known = Some("toplevel-begin-definitions-local");
                    }
                }
                acc.mismatch(
                    Mismatch {
                        idx: i,
                        case: text(&c.forms),
                        expected: r.expected.clone(),
                        observed: r.observed.clone(),
                        payload: json!({"forms": c.forms.iter().map(|f| f.to_string()).collect::<Vec<_>>(), "tags": c.tags, "policy": [policy.left_to_right, policy.operator_first]}),
                    },
                    known,
                );
            }
        },
    )
}

pub fn run(ctx: &Ctx) -> i32 {
    let cs = cases(ctx.thorough());
    let mut best: Option<(Acc, Policy)> = None;
    for policy in POLICIES {
        let acc = sweep(&cs, policy);
        let nv = acc.n_violations;
        if best.as_ref().map(|(b, _)| nv < b.n_violations).unwrap_or(true) {
            best = Some((acc, policy));
        }
        if nv == 0 {
            break;
        }
    }
    let (mut acc, policy) = best.unwrap();
    acc.notes.push(format!("operand-order policy: left_to_right={} operator_first={}", policy.left_to_right, policy.operator_first));
    report::finish(
        acc,
        RunInfo {
            id: "C05".into(),
            tier: ctx.tier_name(),
            seed: ctx.seed,
            exhaustive: true,
            rule: format!("every shape ({} templates) of begin/let/let*/cond/case/and/or/when/unless with a tick in every sub-form position under every truth assignment of its tests (#f, #t, 7), in three contexts (top level, tail of a procedure, operand); every ordered pair (thorough: triple) of {} representative forms nested in every sub-form position; hygiene facet: every representative wrapped in a binding of each of {} identifiers of grammar.sld and with the user rebinding {:?}; distinct = distinct observation vectors (value + tick trace per form)", shapes().len(), representatives().len(), GRAMMAR_IDS.len(), TEMPLATE_FREE_IDS),
            bounds: json!({"cases": cs.len(), "shapes": shapes().len(), "representatives": representatives().len(), "nesting": if ctx.thorough() { 3 } else { 2 }}),
            assumptions: vec!["refsem implements the derived forms directly from R7RS 4.2 (not by expanding grammar.sld)".into()],
            wall_s: ctx.elapsed(),
            extra: json!({}),
        },
    )
}

pub fn replay(p: &serde_json::Value) -> bool {
    let forms: Vec<Sx> = p["forms"].as_array().unwrap().iter().map(|f| parse1(f.as_str().unwrap())).collect();
    let pol = Policy { left_to_right: p["policy"][0].as_bool().unwrap_or(true), operator_first: p["policy"][1].as_bool().unwrap_or(true) };
    let mut it = Interp::new().unwrap();
    let r = judge(&mut it, &forms, pol, Quirks::default());
    println!("program:\n{}\nexpected: {}\nobserved: {}", text(&forms), r.expected, r.observed);
    if let Outcome::Panic(_) = it.eval("1") {
        return true;
    }
    !r.ok
}

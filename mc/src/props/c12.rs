//! C12 — import sets bind exactly the names the import-set algebra yields.
//! E-sweep: every import-set term up to a nesting depth over a 4-export library (every admissible
//! identifier list, renaming incl. swaps and chains, prefix), three supply modes, plus every pair
//! of depth-<=1 terms in one declaration. Oracle: the algebra on a name -> origin map.
use crate::drive::{guarded, obs_of, Interp, Obs};
use crate::report::{self, hash_of, Acc, Mismatch, RunInfo};
use crate::{par, Ctx};
use ruschm::environment::Environment;
use ruschm::interpreter::LibraryFactory;
use ruschm::library_name;
use ruschm::parser::LibraryName;
use ruschm::values::{Number, Value};
use serde_json::json;
use std::collections::BTreeMap;
use std::rc::Rc;

/// name -> origin (the export it denotes)
type Names = BTreeMap<String, char>;

#[derive(Clone, Debug)]
pub enum Term {
    Lib,
    Only(Box<Term>, Vec<String>),
    Except(Box<Term>, Vec<String>),
    Prefix(Box<Term>, String),
    Rename(Box<Term>, Vec<(String, String)>),
}

pub fn base_names() -> Names {
    "abcd".chars().map(|c| (c.to_string(), c)).collect()
}

pub fn apply(t: &Term) -> Names {
    match t {
        Term::Lib => base_names(),
        Term::Only(s, ids) => apply(s).into_iter().filter(|(n, _)| ids.contains(n)).collect(),
        Term::Except(s, ids) => apply(s).into_iter().filter(|(n, _)| !ids.contains(n)).collect(),
        Term::Prefix(s, p) => apply(s).into_iter().map(|(n, o)| (format!("{}{}", p, n), o)).collect(),
        Term::Rename(s, pairs) => apply(s)
            .into_iter()
            .map(|(n, o)| match pairs.iter().find(|(f, _)| *f == n) {
                Some((_, to)) => (to.clone(), o),
                None => (n, o),
            })
            .collect(),
    }
}

pub fn render(t: &Term, lib: &str) -> String {
    match t {
        Term::Lib => lib.to_string(),
        Term::Only(s, ids) => format!("(only {}{}{})", render(s, lib), if ids.is_empty() { "" } else { " " }, ids.join(" ")),
        Term::Except(s, ids) => format!("(except {}{}{})", render(s, lib), if ids.is_empty() { "" } else { " " }, ids.join(" ")),
        Term::Prefix(s, p) => format!("(prefix {} {})", render(s, lib), if p.is_empty() { "||" } else { p }),
        Term::Rename(s, pairs) => format!("(rename {}{})", render(s, lib), pairs.iter().map(|(f, t)| format!(" ({} {})", f, t)).collect::<String>()),
    }
}

fn subsets(names: &[String]) -> Vec<Vec<String>> {
    let mut out = vec![];
    for mask in 0..(1u32 << names.len()) {
        out.push(names.iter().enumerate().filter(|(i, _)| mask & (1 << i) != 0).map(|(_, n)| n.clone()).collect());
    }
    out
}

/// every term obtained by wrapping `inner` once (all admissible arguments for its current names)
pub fn wrap(inner: &Term) -> Vec<Term> {
    let cur: Vec<String> = apply(inner).keys().cloned().collect();
    let mut out = vec![];
    for s in subsets(&cur) {
        out.push(Term::Only(Box::new(inner.clone()), s.clone()));
        out.push(Term::Except(Box::new(inner.clone()), s));
    }
    // two different non-empty prefixes (the order of nested prefixes is observable) and the empty one
    for p in ["p-", "q-", ""] {
        out.push(Term::Prefix(Box::new(inner.clone()), p.to_string()));
    }
    // renames: injective partial maps of <= 2 current names into the current names + {e f}
    // whose result has no duplicate names (swaps and chains included)
    let mut targets: Vec<String> = cur.clone();
    for extra in ["e", "f"] {
        if !targets.iter().any(|t| t == extra) {
            targets.push(extra.to_string());
        }
    }
    let admissible = |pairs: &[(String, String)]| {
        let res = apply(&Term::Rename(Box::new(inner.clone()), pairs.to_vec()));
        res.len() == cur.len()
    };
    out.push(Term::Rename(Box::new(inner.clone()), vec![]));
    for f1 in &cur {
        for t1 in &targets {
            let p1 = vec![(f1.clone(), t1.clone())];
            if admissible(&p1) {
                out.push(Term::Rename(Box::new(inner.clone()), p1.clone()));
            }
            for f2 in &cur {
                if f2 <= f1 {
                    continue;
                }
                for t2 in &targets {
                    if t2 == t1 {
                        continue;
                    }
                    let p2 = vec![(f1.clone(), t1.clone()), (f2.clone(), t2.clone())];
                    if admissible(&p2) {
                        out.push(Term::Rename(Box::new(inner.clone()), p2.clone()));
                        // the same pairs written in the other order
                        out.push(Term::Rename(Box::new(inner.clone()), vec![p2[1].clone(), p2[0].clone()]));
                    }
                }
            }
        }
    }
    out
}

pub fn terms(depth: usize) -> Vec<Term> {
    let mut all = vec![Term::Lib];
    let mut level = vec![Term::Lib];
    for _ in 0..depth {
        let mut next = vec![];
        for t in &level {
            next.extend(wrap(t));
        }
        all.extend(next.iter().cloned());
        level = next;
    }
    all
}

// (each source holds an unrelated library definition in front of the wanted one)
const LIB_SRC: &str = "(define-library (other first) (export z) (begin (define z 0))) (define-library (lib4 src) (export a b c d) (begin (define a 1) (define b 2) (define c 3) (define d 4)))";
const LIB_FILE: &str = "(define-library (other first) (export z) (begin (define z 0)))\n(define-library (lib4 file) (export a b c d) (begin (define a 1) (define b 2) (define c 3) (define d 4)))";
pub const MODES: &[(&str, &str)] = &[("native", "(lib4 native)"), ("registered-source", "(lib4 src)"), ("file", "(lib4 file)")];

pub struct Worker {
    it: Interp,
}

fn scratch() -> std::path::PathBuf {
    std::path::PathBuf::from(format!("/verif/target/scratch/c12-{}", std::process::id()))
}

/// written once before any worker starts (workers only read)
pub fn setup_files() {
    let dir = scratch();
    std::fs::create_dir_all(dir.join("lib4")).expect("scratch dir");
    std::fs::write(dir.join("lib4/file.sld"), LIB_FILE).expect("write library file");
}

pub fn new_worker() -> Worker {
    let mut it = Interp::must_bare();
    it.it.register_library_factory(LibraryFactory::Native(
        library_name!("lib4", "native"),
        Box::new(|| "abcd".chars().enumerate().map(|(i, c)| (c.to_string(), Value::Number(Number::Integer(i as i32 + 1)))).collect()),
    ));
    it.it.register_library_factory(LibraryFactory::from_char_stream(&library_name!("lib4", "src"), LIB_SRC.chars()).unwrap_or_else(|e| crate::drive::impl_fail(&format!("the source of (lib4 src) is rejected: {}", e))));
    it.it.program_directory = Some(scratch());
    Worker { it }
}

/// run one import declaration in an empty environment; returns the bindings or an outcome string
pub fn import_bindings(w: &mut Worker, decl: &str) -> Result<BTreeMap<String, Obs>, String> {
    w.it.it.env = Rc::new(Environment::new());
    let it = &mut w.it.it;
    match guarded(|| it.eval(decl.chars())) {
        Err(p) => Err(format!("PANIC {}", p)),
        Ok(Err(e)) => Err(format!("error {}", e)),
        Ok(Ok(_)) => {
            let mut defs = w.it.it.env.iter_local_definitions();
            Ok((&mut *defs).map(|(n, v)| (n.clone(), obs_of(v))).collect())
        }
    }
}

fn expected_obs(names: &Names) -> BTreeMap<String, Obs> {
    names.iter().map(|(n, o)| (n.clone(), Obs::Int((*o as u8 - b'a') as i32 + 1))).collect()
}

fn depth_of(t: &Term) -> usize {
    match t {
        Term::Lib => 0,
        Term::Only(s, _) | Term::Except(s, _) | Term::Prefix(s, _) | Term::Rename(s, _) => 1 + depth_of(s),
    }
}

fn judge_decl(w1: &mut Worker, w2: &mut Worker, acc: &mut Acc, idx: u64, decl: String, want: Option<Names>, kind: &str, sample: bool) {
    acc.evals += 1;
    acc.count(kind, 1);
    let want = match want {
        Some(w) => w,
        None => {
            acc.exclude("union binding one name to two different exports (an error in R7RS)", || decl.clone());
            return;
        }
    };
    let got1 = import_bindings(w1, &decl);
    // the same declaration on a second interpreter (other hash state): must be identical
    let got2 = import_bindings(w2, &decl);
    let exp = expected_obs(&want);
    acc.distinct_hash(hash_of(&format!("{:?}", got1)));
    acc.outcome_class(if got1.is_ok() { "imported" } else { "error" });
    if sample {
        acc.sample(idx, json!({"declaration": decl, "bindings": format!("{:?}", got1)}));
    }
    let ok = matches!(&got1, Ok(g) if *g == exp) && got1 == got2;
    if !ok {
        acc.mismatch(
            Mismatch { idx, case: format!("[{}] {}", kind, decl), expected: format!("{:?}", exp), observed: format!("{:?} / second instance {:?}", got1, got2), payload: json!({"declaration": decl, "expected": exp.iter().map(|(k, v)| (k.clone(), format!("{}", v))).collect::<BTreeMap<_, _>>()}) },
            None,
        );
    }
}

/// Overlapping import sets of one declaration that bring in the SAME binding twice (not an error:
/// R7RS forbids only different bindings under one name), for values of every kind - among them
/// values that are not equal to themselves under the implementation's own comparison (NaN).
fn same_binding_twice(acc: &mut Acc) {
    let src = "(define-library (vals) (import (scheme base)) (export nan negzero vec proc lst nanlst str sym one) (begin (define nan (/ 0. 0.)) (define negzero -0.0) (define vec (vector 1 2)) (define (proc a) a) (define lst '(1 2)) (define nanlst (list 1 (/ 0. 0.))) (define str \"\") (define sym 'a) (define one 1)))";
    let names = ["nan", "negzero", "vec", "proc", "lst", "nanlst", "str", "sym", "one"];
    let lname = LibraryName(vec![ruschm::parser::LibraryNameElement::Identifier("vals".into())]);
    for n in names {
        let others: Vec<&str> = names.iter().filter(|m| **m != n).cloned().collect();
        for decl in [
            format!("(import (only (vals) {0}) (only (vals) {0}))", n),
            format!("(import (only (vals) {}) (except (vals) {}))", n, others[0]),
            format!("(import (vals) (rename (vals) ({} renamed)))", others[1]),
            format!("(import (vals) (vals))"),
            format!("(import (prefix (only (vals) {0}) p-) (prefix (only (vals) {0}) p-))", n),
        ] {
            let mut it = match Interp::new() {
                Ok(it) => it,
                Err(e) => crate::drive::impl_fail(&format!("interpreter construction: {}", e)),
            };
            match guarded(|| LibraryFactory::from_char_stream(&lname, src.chars())) {
                Ok(Ok(f)) => it.it.register_library_factory(f),
                other => {
                    acc.mismatch(Mismatch { idx: 8_000_000, case: src.to_string(), expected: "the library definition is accepted".into(), observed: format!("{:?}", other.map(|r| r.map(|_| "factory").map_err(|e| e.to_string()))), payload: json!({"declaration": src, "expected": {}}) }, None);
                    return;
                }
            }
            acc.evals += 1;
            acc.count("same binding through two import sets", 1);
            let o = it.eval(&decl);
            let probe = if decl.contains("p-") { format!("p-{}", n) } else { n.to_string() };
            let v = it.eval(&probe);
            if !matches!(o, crate::drive::Outcome::Val(_)) || !matches!(v, crate::drive::Outcome::Val(_)) {
                acc.mismatch(Mismatch { idx: 8_000_001, case: format!("[same binding twice] {}\n  where {}", decl, src), expected: format!("the declaration is accepted and {} is bound", probe), observed: format!("{} ; {} => {}", o, probe, v), payload: json!({"declaration": decl, "library": src, "library_name": "vals-needs-base", "expected": {}}) }, None);
            }
        }
    }
}

/// Import sets over a library that defines and exports a syntax-rules keyword next to its values:
/// the values are bound under the names the algebra yields whether or not the keyword is imported.
fn library_with_keyword(acc: &mut Acc) {
    let src = "(define-library (kwlib) (import (scheme base)) (export swap! helper one) (begin (define one 1) (define (helper a) (list a one)) (define-syntax swap! (syntax-rules () ((swap! a b) (list b a))))))";
    let lname = LibraryName(vec![ruschm::parser::LibraryNameElement::Identifier("kwlib".into())]);
    for (decl, probes) in [
        ("(import (kwlib))", vec![("one", "1"), ("(helper 2)", "(2 1)")]),
        ("(import (only (kwlib) helper one))", vec![("one", "1"), ("(helper 2)", "(2 1)")]),
        ("(import (except (kwlib) swap!))", vec![("one", "1"), ("(helper 3)", "(3 1)")]),
        ("(import (prefix (kwlib) k-))", vec![("k-one", "1"), ("(k-helper 2)", "(2 1)")]),
        ("(import (rename (kwlib) (one uno) (swap! exchange!)))", vec![("uno", "1"), ("(helper 2)", "(2 1)")]),
        ("(import (only (kwlib) swap!) (only (kwlib) one))", vec![("one", "1")]),
    ] {
        let mut it = Interp::must_new();
        match guarded(|| LibraryFactory::from_char_stream(&lname, src.chars())) {
            Ok(Ok(f)) => it.it.register_library_factory(f),
            other => {
                acc.mismatch(Mismatch { idx: 8_100_000, case: src.to_string(), expected: "the library definition is accepted".into(), observed: format!("{:?}", other.map(|r| r.map(|_| "factory").map_err(|e| e.to_string()))), payload: json!({"declaration": src, "library_name": "kwlib-facet", "expected": {}}) }, None);
                return;
            }
        }
        acc.evals += 1;
        acc.count("library exporting a keyword", 1);
        let mut seen = vec![format!("{} => {}", decl, it.eval(decl))];
        let mut ok = !seen[0].contains("error") && !seen[0].contains("PANIC");
        for (p, want) in &probes {
            let o = format!("{}", it.eval(p));
            ok &= o == *want;
            seen.push(format!("{} => {} (expected {})", p, o, want));
        }
        if !ok {
            acc.mismatch(Mismatch { idx: 8_100_001, case: format!("[library exporting a keyword] {}\n  where {}", decl, src), expected: "the declaration is accepted and the probes give the library's values".into(), observed: seen.join(" ; "), payload: json!({"declaration": decl, "library_name": "kwlib-facet", "expected": {}}) }, None);
        }
    }
}

/// Scale ladder: a library with N exports for every N <= max and import sets that name all / every
/// other / one of them, rename them in a chain, a full rotation, a swap among N-2 other pairs (in
/// both orders of the pairs), prefixed and nested. Expected bindings from the algebra on name -> value.
fn scale_phase(max: usize) -> Acc {
    par::sweep(
        max as u64 - 1,
        1,
        |_| (new_worker(), new_worker()),
        |(w1, w2), acc: &mut Acc, i| {
            let n = i as usize + 2;
            let lname = LibraryName(vec![ruschm::parser::LibraryNameElement::Identifier(format!("wide{}", n))]);
            let names: Vec<String> = (1..=n).map(|k| format!("n{}", k)).collect();
            let src = format!("(define-library (wide{}) (export {}) (begin {}))", n, names.join(" "), (1..=n).map(|k| format!("(define n{} {})", k, k)).collect::<Vec<_>>().join(" "));
            for w in [&mut *w1, &mut *w2] {
                match guarded(|| LibraryFactory::from_char_stream(&lname, src.chars())) {
                    Ok(Ok(f)) => w.it.it.register_library_factory(f),
                    other => {
                        acc.mismatch(Mismatch { idx: 7_000_000 + n as u64, case: format!("[scale] {}", src), expected: "the library definition is accepted".into(), observed: format!("{:?}", other.map(|r| r.map(|_| "factory").map_err(|e| e.to_string()))), payload: json!({"declaration": src, "expected": {}}) }, None);
                        return;
                    }
                }
            }
            let lib = format!("(wide{})", n);
            let all: BTreeMap<String, i32> = (1..=n).map(|k| (format!("n{}", k), k as i32)).collect();
            let odd: Vec<String> = (1..=n).filter(|k| k % 2 == 1).map(|k| format!("n{}", k)).collect();
            let pairs_text = |ps: &[(String, String)]| ps.iter().map(|(f, t)| format!("({} {})", f, t)).collect::<Vec<_>>().join(" ");
            let renamed = |ps: &[(String, String)]| -> BTreeMap<String, i32> { all.iter().map(|(k, v)| (ps.iter().find(|(f, _)| f == k).map(|(_, t)| t.clone()).unwrap_or(k.clone()), *v)).collect() };
            let chain: Vec<(String, String)> = (1..=n).map(|k| (format!("n{}", k), if k < n { format!("n{}", k + 1) } else { "x".to_string() })).collect();
            let rotation: Vec<(String, String)> = (1..=n).map(|k| (format!("n{}", k), format!("n{}", k % n + 1))).collect();
            let mut swap: Vec<(String, String)> = (2..n).map(|k| (format!("n{}", k), format!("m{}", k))).collect();
            swap.push(("n1".into(), format!("n{}", n)));
            swap.push((format!("n{}", n), "n1".into()));
            let rev = |ps: &[(String, String)]| ps.iter().rev().cloned().collect::<Vec<_>>();
            let mut decls: Vec<(String, BTreeMap<String, i32>)> = vec![
                (lib.clone(), all.clone()),
                (format!("(only {} {})", lib, names.join(" ")), all.clone()),
                (format!("(only {} {})", lib, odd.join(" ")), all.iter().filter(|(k, _)| odd.contains(k)).map(|(k, v)| (k.clone(), *v)).collect()),
                (format!("(only {} n{})", lib, n), [(format!("n{}", n), n as i32)].into_iter().collect()),
                (format!("(except {} {})", lib, odd.join(" ")), all.iter().filter(|(k, _)| !odd.contains(k)).map(|(k, v)| (k.clone(), *v)).collect()),
                (format!("(except {} n{})", lib, n), all.iter().filter(|(k, _)| **k != format!("n{}", n)).map(|(k, v)| (k.clone(), *v)).collect()),
                (format!("(prefix {} p-)", lib), all.iter().map(|(k, v)| (format!("p-{}", k), *v)).collect()),
            ];
            for ps in [chain.clone(), rev(&chain), rotation.clone(), rev(&rotation), swap.clone(), rev(&swap)] {
                let want = renamed(&ps);
                decls.push((format!("(rename {} {})", lib, pairs_text(&ps)), want.clone()));
                decls.push((format!("(prefix (rename {} {}) q-)", lib, pairs_text(&ps)), want.iter().map(|(k, v)| (format!("q-{}", k), *v)).collect()));
                decls.push((format!("(only (rename {} {}) n2)", lib, pairs_text(&ps)), want.iter().filter(|(k, _)| *k == "n2").map(|(k, v)| (k.clone(), *v)).collect()));
            }
            for (k, (set, want)) in decls.into_iter().enumerate() {
                let decl = format!("(import {})", set);
                acc.evals += 1;
                acc.count("scale ladder: library with N exports", 1);
                let got1 = import_bindings(w1, &decl);
                let got2 = import_bindings(w2, &decl);
                let exp: BTreeMap<String, Obs> = want.iter().map(|(k, v)| (k.clone(), Obs::Int(*v))).collect();
                acc.distinct_hash(hash_of(&format!("{:?}", got1)));
                if !(matches!(&got1, Ok(g) if *g == exp) && got1 == got2) {
                    let short = |r: &Result<BTreeMap<String, Obs>, String>| match r {
                        Ok(g) => format!("{:?}", g.iter().filter(|(k, v)| exp.get(*k) != Some(v)).collect::<Vec<_>>()),
                        Err(e) => e.clone(),
                    };
                    acc.mismatch(
                        Mismatch { idx: 7_000_000 + (n * 100 + k) as u64, case: format!("[scale: {} exports] {}", n, decl), expected: format!("{} bindings, e.g. {:?}", exp.len(), exp.iter().filter(|(k, v)| !matches!(&got1, Ok(g) if g.get(*k) == Some(v))).take(4).collect::<Vec<_>>()), observed: format!("differing: {} / second instance {}", short(&got1), short(&got2)), payload: json!({"declaration": decl, "library": src, "library_name": format!("wide{}", n), "expected": exp.iter().map(|(k, v)| (k.clone(), format!("{}", v))).collect::<BTreeMap<_, _>>()}) },
                        None,
                    );
                }
            }
        },
    )
}

pub fn run(ctx: &Ctx) -> i32 {
    let depth: usize = std::env::var("C12_DEPTH").ok().and_then(|s| s.parse().ok()).unwrap_or(3);
    setup_files();
    // terms up to depth D-1 are materialised; the deepest level is generated on the fly from its
    // parent inside the worker (depth 3 has millions of terms)
    let ts = terms(depth - 1);
    let d1 = terms(1);
    let npairs = d1.len() * d1.len();
    let total = (ts.len() + 3 * npairs) as u64;
    let (tsr, d1r) = (&ts, &d1);
    let acc = par::sweep(
        total,
        16,
        |_| (new_worker(), new_worker()),
        |(w1, w2), acc: &mut Acc, i| {
            let i = i as usize;
            if i < tsr.len() {
                let t = &tsr[i];
                let mut all = vec![t.clone()];
                if depth_of(t) == depth - 1 {
                    all.extend(wrap(t));
                }
                for (k, t) in all.iter().enumerate() {
                    for m in MODES {
                        judge_decl(w1, w2, acc, (i * 100_000 + k) as u64, format!("(import {})", render(t, m.1)), Some(apply(t)), m.0, k == 1 && i % (tsr.len() / 5 + 1) == 2);
                    }
                }
                acc.states += all.len() as u64;
            } else if i >= tsr.len() + 2 * npairs {
                // the two import sets inside the import declaration of a LIBRARY that re-exports
                // everything it imported; the program imports that library
                let k = i - tsr.len() - 2 * npairs;
                let (t1, t2) = (&d1r[k / d1r.len()], &d1r[k % d1r.len()]);
                let (n1, n2) = (apply(t1), apply(t2));
                let conflict = n1.iter().any(|(n, o)| n2.get(n).map(|o2| o2 != o).unwrap_or(false));
                let mut u = n1.clone();
                u.extend(n2);
                if conflict || u.is_empty() {
                    acc.evals += 1;
                    acc.exclude("library importing one name with two different bindings / exporting nothing", || format!("{} {}", render(t1, "(lib4 src)"), render(t2, "(lib4 native)")));
                } else {
                    let name = format!("user{}", k);
                    let exports: Vec<String> = u.keys().map(|n| if n.is_empty() { "||".to_string() } else { n.clone() }).collect();
                    let src = format!("(define-library ({}) (import {} {}) (export {}))", name, render(t1, "(lib4 src)"), render(t2, "(lib4 native)"), exports.join(" "));
                    let lname = LibraryName(vec![ruschm::parser::LibraryNameElement::Identifier(name.clone())]);
                    match guarded(|| LibraryFactory::from_char_stream(&lname, src.chars())) {
                        Ok(Ok(f)) => {
                            w1.it.it.register_library_factory(f);
                            // (second worker: the same library under the same name)
                            if let Ok(Ok(f2)) = guarded(|| LibraryFactory::from_char_stream(&lname, src.chars())) {
                                w2.it.it.register_library_factory(f2);
                            }
                            judge_decl(w1, w2, acc, (i * 100_000) as u64, format!("(import ({}))", name), Some(u), "through-a-library", false);
                            // the case is reported with the library's text
                            if let Some(v) = acc.violations.last_mut() {
                                if v.idx == (i * 100_000) as u64 && !v.case.contains("define-library") {
                                    v.case = format!("{}\n  where {}", v.case, src);
                                    v.payload["library"] = json!(src);
                                    v.payload["library_name"] = json!(name);
                                }
                            }
                        }
                        Ok(Err(e)) => acc.mismatch(Mismatch { idx: (i * 100_000) as u64, case: format!("[through-a-library] {}", src), expected: "the library definition is accepted".into(), observed: format!("error {}", e), payload: json!({"declaration": format!("(import ({}))", name), "library": src, "library_name": name, "expected": {}}) }, None),
                        Err(p) => acc.mismatch(Mismatch { idx: (i * 100_000) as u64, case: format!("[through-a-library] {}", src), expected: "the library definition is accepted".into(), observed: format!("PANIC {}", p), payload: json!({"declaration": format!("(import ({}))", name), "library": src, "library_name": name, "expected": {}}) }, None),
                    }
                }
            } else if i >= tsr.len() + npairs {
                // two import DECLARATIONS one after the other on the same interpreter: the second
                // binds (and re-binds) exactly its own names, whatever the first one bound
                let k = i - tsr.len() - npairs;
                let (t1, t2) = (&d1r[k / d1r.len()], &d1r[k % d1r.len()]);
                let mut u = apply(t1);
                u.extend(apply(t2));
                let (l1, l2) = if k % 2 == 0 { ("(lib4 src)", "(lib4 src)") } else { ("(lib4 native)", "(lib4 file)") };
                judge_decl(w1, w2, acc, (i * 100_000) as u64, format!("(import {}) (import {})", render(t1, l1), render(t2, l2)), Some(u), "two-declarations", false);
            } else {
                let k = i - tsr.len();
                let (t1, t2) = (&d1r[k / d1r.len()], &d1r[k % d1r.len()]);
                let (n1, n2) = (apply(t1), apply(t2));
                // the same name with two different origins: an error in R7RS, not judged
                let conflict = n1.iter().any(|(n, o)| n2.get(n).map(|o2| o2 != o).unwrap_or(false));
                let mut u = n1.clone();
                u.extend(n2);
                judge_decl(w1, w2, acc, (i * 100_000) as u64, format!("(import {} {})", render(t1, "(lib4 src)"), render(t2, "(lib4 native)")), if conflict { None } else { Some(u) }, "union", false);
            }
        },
    );
    let mut acc = acc;
    let scale = if ctx.thorough() { 300 } else { 64 };
    let nterms = acc.states;
    acc.merge(scale_phase(scale));
    same_binding_twice(&mut acc);
    library_with_keyword(&mut acc);
    let _ = std::fs::remove_dir_all(scratch());
    report::finish(
        acc,
        RunInfo {
            id: "C12".into(),
            tier: ctx.tier_name(),
            seed: ctx.seed,
            exhaustive: true,
            rule: "every import-set term of nesting depth <= D over a library exporting a b c d: only / except with every subset of the current names, prefixes p-, q- and the empty prefix, rename with every injective partial map of <= 2 current names into the current names + {e f} without duplicate results (swaps, chains, both orders of the pairs); each term with the library supplied natively, as registered source and as a file; every ordered pair of depth-<=1 terms in one declaration and as two declarations in sequence on one interpreter (the later one re-binds), and as the two import sets of a library that re-exports what it imports; each declaration on two interpreter instances; the same binding (a NaN, -0.0, a vector, a procedure, lists, the empty string, a symbol) brought in twice by overlapping import sets of one declaration; import sets over a library that also exports a syntax-rules keyword; scale ladder: a library with N exports for every N <= 64 (thorough 300), imported whole / only / except (all, every other, one) / prefixed / renamed in a chain, a full rotation and a swap among N-2 other pairs, both orders of the pairs, also nested in prefix and only; states = terms, distinct = distinct binding sets".into(),
            bounds: json!({"depth": depth, "terms": nterms, "supply_modes": MODES.len(), "union_pairs": npairs, "scale_ladder_max_exports": scale}),
            assumptions: vec!["hash seeds cannot be enumerated: two instances per declaration are a sample of the seed space, the term space is exhaustive".into()],
            wall_s: ctx.elapsed(),
            extra: json!({}),
        },
    )
}

pub fn replay(p: &serde_json::Value) -> bool {
    let decl = p["declaration"].as_str().unwrap();
    if p["library_name"] == "kwlib-facet" {
        let mut acc = Acc::new();
        library_with_keyword(&mut acc);
        for v in &acc.violations {
            println!("{}\n  {}", v.case, v.observed);
        }
        return acc.n_violations > 0;
    }
    if p["library_name"] == "vals-needs-base" {
        // (the same-binding-twice facet runs on an interpreter with the standard library)
        let mut acc = Acc::new();
        same_binding_twice(&mut acc);
        for v in &acc.violations {
            println!("{}\n  {}", v.case, v.observed);
        }
        return acc.n_violations > 0;
    }
    setup_files();
    let mut w = new_worker();
    if let (Some(src), Some(name)) = (p["library"].as_str(), p["library_name"].as_str()) {
        let lname = LibraryName(vec![ruschm::parser::LibraryNameElement::Identifier(name.to_string())]);
        if let Ok(f) = LibraryFactory::from_char_stream(&lname, src.chars()) {
            w.it.it.register_library_factory(f);
        }
    }
    let got = import_bindings(&mut w, decl);
    let want: BTreeMap<String, String> = serde_json::from_value(p["expected"].clone()).unwrap_or_default();
    println!("{}\nexpected {:?}\nobserved {:?}", decl, want, got);
    let _ = std::fs::remove_dir_all(scratch());
    match got {
        Ok(g) => g.iter().map(|(k, v)| (k.clone(), format!("{}", v))).collect::<BTreeMap<_, _>>() != want,
        Err(_) => true,
    }
}

//! C14 — library loading terminates, and its outcome depends only on the library graph.
//! E-hist in supervised worker processes: every directed graph on <= 3 libraries x every placement
//! of node health x every history of import attempts on one interpreter x supply mode (files under
//! the program directory with decoys in the working directory / registered sources). Oracle: the
//! reference loader outcome on the graph (history independent), the in-progress set empty after
//! every attempt (hook H2), exports bound after a success. A worker death = non-termination.
use crate::drive::{ErrKind, Interp, Outcome};
use crate::report::{self, hash_of, Acc, Mismatch, RunInfo};
use crate::supervise::{self, run_sharded};
use crate::Ctx;
use ruschm::interpreter::LibraryFactory;
use ruschm::parser::{LibraryName, LibraryNameElement};
use serde_json::{json, Value as J};
use std::collections::{BTreeMap, BTreeSet, HashSet};

#[derive(Clone, Copy, PartialEq, Eq, Debug, PartialOrd, Ord)]
pub enum Health {
    Healthy,
    Missing,
    FaultingBody,
    WrongName,
    Broken,
    NotUtf8,
    Directory,
    /// healthy, but its source holds another library definition in front of it
    SecondInSource,
    /// a byte that is not UTF-8 on the LAST line of the file, in a comment after the complete form
    NotUtf8Trailing,
}
pub const HEALTHS: [Health; 9] = [Health::Healthy, Health::Missing, Health::FaultingBody, Health::WrongName, Health::Broken, Health::NotUtf8, Health::Directory, Health::SecondInSource, Health::NotUtf8Trailing];
const NAMES: [&str; 3] = ["la", "lb", "lc"];

#[derive(Clone, Debug)]
pub struct Config {
    pub n: usize,
    /// edges[i] = bitmask of libraries imported by library i (in ascending order)
    pub edges: Vec<u8>,
    pub health: Vec<Health>,
    /// how the import sets of the library-to-library edges are written (see `import_set`)
    pub style: u8,
}
pub const STYLES: [&str; 7] = ["direct", "only", "prefix", "rename", "except", "mixed", "only-nothing"];

/// the import set by which library i imports library j
fn import_set(style: u8, i: usize, j: usize) -> String {
    let st = if style == 5 { 1 + ((i + 2 * j) % 4) as u8 } else { style };
    match st {
        0 => format!("({})", NAMES[j]),
        1 => format!("(only ({0}) v{0})", NAMES[j]),
        2 => format!("(prefix ({}) p-)", NAMES[j]),
        3 => format!("(rename ({0}) (v{0} w{0}))", NAMES[j]),
        // imports no binding at all - the library is loaded all the same
        6 => format!("(only ({}))", NAMES[j]),
        _ => format!("(except ({0}) v{0})", NAMES[j]),
    }
}

impl Config {
    pub fn describe(&self) -> String {
        let mut s = format!("import-sets={} ", STYLES[self.style as usize]);
        for i in 0..self.n {
            let imps: Vec<&str> = (0..self.n).filter(|j| self.edges[i] & (1 << j) != 0).map(|j| NAMES[j]).collect();
            s.push_str(&format!("{}[{:?}]->({}) ", NAMES[i], self.health[i], imps.join(",")));
        }
        s
    }
}

/// enumeration of configurations: graphs on 1, 2, 3 libraries x health assignments
pub struct Space {
    pub configs_1_2: Vec<Config>,
    pub thorough: bool,
}

fn health_assignments(n: usize, at_most_one_unhealthy: bool) -> Vec<Vec<Health>> {
    let mut out = vec![];
    let total = HEALTHS.len().pow(n as u32);
    for k in 0..total {
        let mut v = vec![];
        let mut x = k;
        for _ in 0..n {
            v.push(HEALTHS[x % HEALTHS.len()]);
            x /= HEALTHS.len();
        }
        if at_most_one_unhealthy && v.iter().filter(|h| **h != Health::Healthy).count() > 1 {
            continue;
        }
        out.push(v);
    }
    out
}

impl Space {
    pub fn new(thorough: bool) -> Space {
        let mut c = vec![];
        for n in 1..=2usize {
            let ngraphs = 1u32 << (n * n);
            for g in 0..ngraphs {
                let edges: Vec<u8> = (0..n).map(|i| ((g >> (i * n)) & ((1 << n) - 1)) as u8).collect();
                for h in health_assignments(n, false) {
                    for style in 0..STYLES.len() as u8 {
                        // the spelling of an import set matters only where there is an edge
                        if style > 0 && edges.iter().all(|e| *e == 0) {
                            continue;
                        }
                        c.push(Config { n, edges: edges.clone(), health: h.clone(), style });
                    }
                }
            }
        }
        Space { configs_1_2: c, thorough }
    }
    fn h3(&self) -> Vec<Vec<Health>> {
        health_assignments(3, !self.thorough)
    }
    pub fn total(&self) -> u64 {
        self.configs_1_2.len() as u64 + 512 * self.h3().len() as u64 + 512 * STYLED3.len() as u64
    }
    pub fn config(&self, i: u64, h3: &[Vec<Health>]) -> Config {
        if (i as usize) < self.configs_1_2.len() {
            return self.configs_1_2[i as usize].clone();
        }
        let k = i as usize - self.configs_1_2.len();
        if k >= 512 * h3.len() {
            // all-healthy graphs on 3 libraries with the edges written as other import sets
            let k = k - 512 * h3.len();
            let (g, si) = (k / STYLED3.len(), k % STYLED3.len());
            let edges: Vec<u8> = (0..3).map(|r| ((g >> (r * 3)) & 7) as u8).collect();
            return Config { n: 3, edges, health: vec![Health::Healthy; 3], style: STYLED3[si] };
        }
        let (g, hi) = (k / h3.len(), k % h3.len());
        let edges: Vec<u8> = (0..3).map(|r| ((g >> (r * 3)) & 7) as u8).collect();
        Config { n: 3, edges, health: h3[hi].clone(), style: 0 }
    }
}

/// import-set styles applied to the (all-healthy) graphs on 3 libraries
const STYLED3: [u8; 3] = [1, 5, 6];

fn lib_name(i: usize) -> LibraryName {
    LibraryName(vec![LibraryNameElement::Identifier(NAMES[i].to_string())])
}

fn lib_source(c: &Config, i: usize, defined_name: &str, body_faults: bool) -> String {
    let imps: Vec<String> = (0..c.n).filter(|j| c.edges[i] & (1 << j) != 0).map(|j| import_set(c.style, i, j)).collect();
    let import = if imps.is_empty() { String::new() } else { format!(" (import {})", imps.join(" ")) };
    let value = if body_faults { "boom-unbound".to_string() } else { format!("{}", i + 1) };
    // every library privately defines a MACRO named like the procedure each OTHER library uses to
    // compute its value: loading (or failing to load) one library must not change how another is read
    let macros: String = (0..3).filter(|j| *j != i).map(|j| format!("    (define-syntax probe-{0} (syntax-rules () ((probe-{0} a) 'leaked-from-{1})))\n", NAMES[j], NAMES[i])).collect();
    // several lines: where in the file something goes wrong must not matter
    format!(
        "(define-library ({})\n  (export v{}){}\n  (begin\n{}    (define (probe-{} a) a)\n    (define v{} (probe-{} {}))))\n",
        defined_name, NAMES[i], import, macros, NAMES[i], NAMES[i], NAMES[i], value
    )
}

/// the reference loader: set of acceptable error kinds for importing library `x` (empty = success)
pub fn reference_outcome(c: &Config, x: usize, registered: bool) -> BTreeSet<String> {
    let mut errs = BTreeSet::new();
    // depth-first over readable nodes; `stack` = libraries in progress
    fn visit(c: &Config, i: usize, stack: &mut Vec<usize>, errs: &mut BTreeSet<String>, registered: bool, done: &mut HashSet<usize>) {
        if stack.contains(&i) {
            errs.insert("ImportCycle".to_string());
            return;
        }
        let h = effective(c.health[i], registered);
        match h {
            Health::Missing | Health::WrongName => {
                errs.insert("LibraryNotFound".to_string());
                return;
            }
            Health::Broken => {
                errs.insert("Syntax".to_string());
                return;
            }
            Health::NotUtf8 | Health::NotUtf8Trailing | Health::Directory => {
                errs.insert("Io".to_string());
                return;
            }
            _ => {}
        }
        if done.contains(&i) {
            // a shared dependency reached by another path: not a cycle
            if h == Health::FaultingBody {
                errs.insert("Unbound".to_string());
            }
            return;
        }
        stack.push(i);
        for j in 0..c.n {
            if c.edges[i] & (1 << j) != 0 {
                visit(c, j, stack, errs, registered, done);
            }
        }
        stack.pop();
        done.insert(i);
        if h == Health::FaultingBody {
            errs.insert("Unbound".to_string());
        }
    }
    let mut done = HashSet::new();
    visit(c, x, &mut vec![], &mut errs, registered, &mut done);
    errs
}

/// registered sources can only be healthy, absent or faulting (an unparsable or misnamed source
/// cannot be registered at all)
fn effective(h: Health, registered: bool) -> Health {
    if registered {
        match h {
            Health::Healthy | Health::FaultingBody | Health::SecondInSource => h,
            _ => Health::Missing,
        }
    } else {
        h
    }
}

fn kind_name(k: &ErrKind) -> String {
    match k {
        ErrKind::ImportCycle => "ImportCycle".into(),
        ErrKind::LibraryNotFound => "LibraryNotFound".into(),
        ErrKind::Io => "Io".into(),
        ErrKind::Syntax(_) | ErrKind::NoMatchingRule => "Syntax".into(),
        ErrKind::Unbound(_) => "Unbound".into(),
        other => format!("{:?}", other),
    }
}

/// another, unrelated library definition in front of the wanted one
fn with_other_first(src: &str) -> String {
    format!("(define-library (unrelated other) (export uo) (begin (define uo 77)))\n{}", src)
}

fn write_config(c: &Config, dir: &std::path::Path) {
    let _ = std::fs::remove_dir_all(dir);
    std::fs::create_dir_all(dir).expect("scratch dir");
    for i in 0..c.n {
        let p = dir.join(format!("{}.sld", NAMES[i]));
        match c.health[i] {
            Health::Healthy => std::fs::write(&p, lib_source(c, i, NAMES[i], false)).unwrap(),
            Health::SecondInSource => std::fs::write(&p, with_other_first(&lib_source(c, i, NAMES[i], false))).unwrap(),
            Health::Missing => {}
            Health::FaultingBody => std::fs::write(&p, lib_source(c, i, NAMES[i], true)).unwrap(),
            Health::WrongName => std::fs::write(&p, lib_source(c, i, "zzz", false)).unwrap(),
            Health::Broken => {
                let s = lib_source(c, i, NAMES[i], false);
                std::fs::write(&p, &s[..s.len() - 4]).unwrap()
            }
            Health::NotUtf8 => {
                let mut b = lib_source(c, i, NAMES[i], false).into_bytes();
                b[20] = 0xff;
                std::fs::write(&p, b).unwrap()
            }
            Health::NotUtf8Trailing => {
                let mut b = lib_source(c, i, NAMES[i], false).into_bytes();
                b.extend_from_slice(b"; caf\xe9 au lait\n");
                std::fs::write(&p, b).unwrap()
            }
            Health::Directory => std::fs::create_dir_all(&p).unwrap(),
        }
    }
}

pub struct HistoryResult {
    pub attempts: Vec<(usize, String, bool)>, // (library, observed, ok)
}

/// one history of import attempts on ONE interpreter
pub fn run_history(c: &Config, hist: &[usize], registered: bool, dir: &std::path::Path) -> HistoryResult {
    let mut it = Interp::must_bare();
    if registered {
        for i in 0..c.n {
            let src = match effective(c.health[i], true) {
                Health::Healthy => lib_source(c, i, NAMES[i], false),
                Health::SecondInSource => with_other_first(&lib_source(c, i, NAMES[i], false)),
                Health::FaultingBody => lib_source(c, i, NAMES[i], true),
                _ => continue,
            };
            // a well-formed source that defines the library must be accepted by the registry
            match crate::drive::guarded(|| LibraryFactory::from_char_stream(&lib_name(i), src.chars())) {
                Ok(Ok(f)) => it.it.register_library_factory(f),
                Ok(Err(e)) => return HistoryResult { attempts: vec![(i, format!("the source of ({}) is rejected by LibraryFactory::from_char_stream: {}", NAMES[i], e), false)] },
                Err(p) => return HistoryResult { attempts: vec![(i, format!("PANIC while registering the source of ({}): {}", NAMES[i], p), false)] },
            }
        }
        // no file may be found for a missing registered library
        it.it.program_directory = Some(dir.join("no-such-subdirectory"));
    } else {
        it.it.program_directory = Some(dir.to_path_buf());
    }
    let mut attempts = vec![];
    let mut imported_ok: BTreeSet<usize> = BTreeSet::new();
    for &x in hist {
        let o = it.eval(&format!("(import ({}))", NAMES[x]));
        let want = reference_outcome(c, x, registered);
        let mut ok;
        let mut obs = format!("{}", o);
        match &o {
            Outcome::Val(_) => {
                ok = want.is_empty();
                imported_ok.insert(x);
            }
            Outcome::Err(k, _) => ok = want.contains(&kind_name(k)),
            Outcome::Panic(_) => ok = false,
        }
        // H2: no library is marked in progress while no import is running
        let inprog = it.it.verif_in_progress();
        if !inprog.is_empty() {
            ok = false;
            obs.push_str(&format!(" [in-progress set not empty: {:?}]", inprog));
        }
        // exports of every successfully imported library are bound to the program-directory values
        {
            let mut defs = it.it.env.iter_local_definitions();
            let bound: BTreeMap<String, String> = (&mut *defs).map(|(n, v)| (n.clone(), format!("{}", v))).collect();
            for i in &imported_ok {
                let name = format!("v{}", NAMES[*i]);
                if bound.get(&name) != Some(&format!("{}", i + 1)) {
                    ok = false;
                    obs.push_str(&format!(" [{} is {:?}, expected {}]", name, bound.get(&name), i + 1));
                }
            }
        }
        attempts.push((x, obs, ok));
    }
    HistoryResult { attempts }
}

fn histories(n: usize, len: usize) -> Vec<Vec<usize>> {
    let mut out = vec![vec![]];
    for _ in 0..len {
        let mut next = vec![];
        for h in &out {
            for x in 0..n {
                let mut g = h.clone();
                g.push(x);
                next.push(g);
            }
        }
        out = next;
    }
    out
}

fn hist_len(c: &Config, thorough: bool) -> usize {
    // maximal histories cover their prefixes
    if c.n < 3 || (thorough && c.health.iter().filter(|h| **h != Health::Healthy).count() <= 1) {
        3
    } else {
        2
    }
}

pub fn worker(args: &[String]) {
    let thorough = args[1] == "thorough";
    let (start, end, every): (u64, u64, bool) = (args[2].parse().unwrap(), args[3].parse().unwrap(), args[4] == "1");
    supervise::worker_init(10_000, 8 << 30);
    let h = std::thread::Builder::new()
        .stack_size(64 << 20)
        .spawn(move || {
            let sp = Space::new(thorough);
            let h3 = sp.h3();
            let base = std::path::PathBuf::from(format!("/verif/target/scratch/c14-{}", std::process::id()));
            let dir = base.join("program");
            let decoy = base.join("cwd-decoy");
            std::fs::create_dir_all(&decoy).unwrap();
            // decoys: same-named healthy libraries with different values, in the WORKING directory
            for i in 0..3 {
                std::fs::write(decoy.join(format!("{}.sld", NAMES[i])), format!("(define-library ({}) (export v{}) (begin (define v{} {})))\n", NAMES[i], NAMES[i], NAMES[i], 900 + i)).unwrap();
            }
            std::env::set_current_dir(&decoy).unwrap();
            let (mut evals, mut trans) = (0u64, 0u64);
            let mut hist: BTreeMap<String, u64> = BTreeMap::new();
            let mut viol: Vec<J> = vec![];
            let mut distinct: HashSet<u64> = HashSet::new();
            let mut samples: Vec<J> = vec![];
            let mut from = start;
            for i in start..end {
                if every {
                    supervise::emit(&format!("S {}", i));
                }
                supervise::case_begin(i);
                let c = sp.config(i, &h3);
                write_config(&c, &dir);
                for registered in [false, true] {
                    for hh in histories(c.n, hist_len(&c, thorough)) {
                        let r = run_history(&c, &hh, registered, &dir);
                        evals += 1;
                        for (k, (x, obs, ok)) in r.attempts.iter().enumerate() {
                            trans += 1;
                            let cls = obs.split(|ch: char| ch == '(' || ch == ' ' || ch == '"').take(2).collect::<Vec<_>>().join(" ");
                            *hist.entry(cls).or_insert(0) += 1;
                            distinct.insert(hash_of(&(c.n, obs.clone(), k)));
                            if !ok && viol.len() < 20 {
                                viol.push(json!({"idx": i, "case": format!("[{}] {} attempts {:?} (attempt {} imports {})", if registered { "registered" } else { "files" }, c.describe(), hh.iter().map(|x| NAMES[*x]).collect::<Vec<_>>(), k + 1, NAMES[*x]), "expected": format!("{:?}", reference_outcome(&c, *x, registered)), "observed": obs, "history": hh, "registered": registered}));
                            }
                        }
                    }
                }
                supervise::case_end();
                if i % 997 == 3 {
                    samples.push(json!({"index": i, "configuration": c.describe()}));
                }
                if (i + 1 - start) % supervise::BLOCK == 0 || every || i + 1 == end {
                    let j = json!({"from": from, "upto": i, "evals": evals, "transitions": trans, "hist": hist, "viol": viol, "distinct": distinct.iter().collect::<Vec<_>>(), "samples": samples});
                    supervise::emit(&format!("P {} {}", i, j));
                    from = i + 1;
                    evals = 0;
                    trans = 0;
                    hist.clear();
                    viol.clear();
                    distinct.clear();
                    samples.clear();
                }
            }
            supervise::emit("END");
            let _ = std::env::set_current_dir("/");
            let _ = std::fs::remove_dir_all(&base);
        })
        .unwrap();
    let _ = h.join();
}

/// Histories of PROGRAM FILES on one interpreter: every ordered sequence of up to three programs
/// from three directories (each program only imports a library that lives next to it; the other
/// directories and the working directory hold same-named decoys with other values). Each library
/// must be found next to the program that imports it.
fn two_program_directories(acc: &mut Acc) {
    let base = std::path::PathBuf::from(format!("/verif/target/scratch/c14-programs-{}", std::process::id()));
    let _ = std::fs::remove_dir_all(&base);
    let dirs: Vec<std::path::PathBuf> = (0..3).map(|d| base.join(format!("dir{}", d))).collect();
    for (d, dir) in dirs.iter().enumerate() {
        std::fs::create_dir_all(dir).unwrap();
        std::fs::write(dir.join("prog.scm"), format!("(import ({}))\n", NAMES[d])).unwrap();
        for i in 0..3 {
            // the right value next to its own program, decoy values (900 + ...) elsewhere
            let v = if i == d { (i + 1) as i64 } else { 900 + (10 * d + i) as i64 };
            std::fs::write(dir.join(format!("{}.sld", NAMES[i])), format!("(define-library ({0}) (export v{0}) (begin (define v{0} {1})))\n", NAMES[i], v)).unwrap();
        }
    }
    let cwd = base.join("cwd");
    std::fs::create_dir_all(&cwd).unwrap();
    for i in 0..3 {
        std::fs::write(cwd.join(format!("{}.sld", NAMES[i])), format!("(define-library ({0}) (export v{0}) (begin (define v{0} {1})))\n", NAMES[i], 800 + i)).unwrap();
    }
    let old_cwd = std::env::current_dir().ok();
    let _ = std::env::set_current_dir(&cwd);
    let mut seqs: Vec<Vec<usize>> = vec![];
    for a in 0..3 {
        seqs.push(vec![a]);
        for b in 0..3 {
            if b != a {
                seqs.push(vec![a, b]);
                for c in 0..3 {
                    if c != a && c != b {
                        seqs.push(vec![a, b, c]);
                    }
                }
            }
        }
    }
    for seq in seqs {
        let mut it = Interp::must_bare();
        let mut obs = vec![];
        let mut ok = true;
        for (k, d) in seq.iter().enumerate() {
            let prog = dirs[*d].join("prog.scm");
            let i = &mut it.it;
            let r = crate::drive::guarded(|| i.eval_file(prog));
            acc.evals += 1;
            acc.transitions += 1;
            let bound: BTreeMap<String, String> = {
                let mut defs = it.it.env.iter_local_definitions();
                (&mut *defs).map(|(n, v)| (n.clone(), format!("{}", v))).collect()
            };
            let name = format!("v{}", NAMES[*d]);
            let good = matches!(r, Ok(Ok(_))) && bound.get(&name) == Some(&format!("{}", d + 1));
            obs.push(format!("program {} in {}: {} ; {} = {:?}", k + 1, dirs[*d].file_name().unwrap().to_string_lossy(), match &r { Ok(Ok(_)) => "ok".to_string(), Ok(Err(e)) => format!("error {}", e), Err(p) => format!("PANIC {}", p) }, name, bound.get(&name)));
            ok &= good;
        }
        if !ok {
            acc.mismatch(
                Mismatch { idx: u64::MAX - 100, case: format!("[program files on one interpreter] directories {:?}", seq), expected: ": every program finds the library that lives next to it (values 1, 2, 3; decoys are 8xx / 9xx)".into(), observed: obs.join(" | "), payload: json!({"programs": seq}) },
                None,
            );
        }
    }
    // the same through the built BINARY, started in the decoy directory: `ruschm DIR/show.scm` finds
    // the library next to the program file, not in the working directory
    let bin = crate::props::c17::bin();
    if std::path::Path::new(&bin).exists() {
        for (d, dir) in dirs.iter().enumerate() {
            let prog = dir.join("show.scm");
            std::fs::write(&prog, format!("(import (scheme base) (scheme write) ({0}))\n(display v{0})\n", NAMES[d])).unwrap();
            for (how, arg, wd) in [("absolute path, other working directory", prog.to_string_lossy().to_string(), cwd.clone()), ("relative path, own directory", "show.scm".to_string(), dir.clone())] {
                acc.evals += 1;
                acc.transitions += 1;
                let out = std::process::Command::new(&bin).arg(&arg).current_dir(&wd).output();
                let (stdout, code) = match &out {
                    Ok(o) => (String::from_utf8_lossy(&o.stdout).to_string(), o.status.code()),
                    Err(e) => (format!("spawn failed: {}", e), None),
                };
                if stdout.trim() != format!("{}", d + 1) || code != Some(0) {
                    let stderr = out.as_ref().map(|o| String::from_utf8_lossy(&o.stderr).to_string()).unwrap_or_default();
                    acc.mismatch(
                        Mismatch { idx: u64::MAX - 101, case: format!("[binary, {}] ruschm {} (imports ({}))", how, arg, NAMES[d]), expected: format!(": prints {} and exits 0 (the library next to the program; decoys are 8xx / 9xx)", d + 1), observed: format!("stdout {:?} status {:?} stderr {:?}", stdout, code, stderr), payload: json!({"programs": [d]}) },
                        None,
                    );
                }
            }
        }
        // the working directory of the process no longer exists (removed after the process
        // entered it): nothing about a program given by absolute path depends on it
        for (d, dir) in dirs.iter().enumerate() {
            let gone = base.join(format!("gone{}", d));
            let _ = std::fs::create_dir_all(&gone);
            let prog = dir.join("show.scm");
            acc.evals += 1;
            acc.transitions += 1;
            let out = std::process::Command::new("sh").arg("-c").arg(format!("cd '{}' && rmdir '{}' && exec '{}' '{}'", gone.display(), gone.display(), bin, prog.display())).output();
            let (stdout, code, stderr) = match &out {
                Ok(o) => (String::from_utf8_lossy(&o.stdout).to_string(), o.status.code(), String::from_utf8_lossy(&o.stderr).to_string()),
                Err(e) => (format!("spawn failed: {}", e), None, String::new()),
            };
            if stdout.trim() != format!("{}", d + 1) || code != Some(0) {
                acc.mismatch(
                    Mismatch { idx: u64::MAX - 102, case: format!("[binary, working directory removed] ruschm {} (imports ({}))", prog.display(), NAMES[d]), expected: format!(": prints {} and exits 0", d + 1), observed: format!("stdout {:?} status {:?} stderr {:?}", stdout, code, stderr), payload: json!({"programs": [d]}) },
                    None,
                );
            }
        }
    } else {
        acc.notes.push(format!("binary {} not built: the program-directory check ran through the library interface only", bin));
    }
    if let Some(c) = old_cwd {
        let _ = std::env::set_current_dir(c);
    }
    let _ = std::fs::remove_dir_all(&base);
}

/// File-shape ladder: a healthy library file in which a multi-byte character (2, 3 or 4 bytes; in a
/// comment or inside a string of the body) starts at every byte offset 1..=700 must load and give its
/// value (a reader working in blocks shows at its block boundary); library names whose file paths
/// coincide (`(a b)` / `(a/b)`, `(foo 1)` / `(foo |1|)`) are different libraries.
fn file_shape_ladder(acc: &mut Acc, top: usize) {
    let base = std::path::PathBuf::from(format!("/verif/target/scratch/c14-shapes-{}", std::process::id()));
    let _ = std::fs::remove_dir_all(&base);
    std::fs::create_dir_all(&base).unwrap();
    let eval_in = |forms: &[String]| -> Vec<String> {
        let mut it = Interp::must_bare();
        it.it.program_directory = Some(base.clone());
        forms.iter().map(|f| format!("{}", it.eval(f))).collect()
    };
    for k in 1..=top {
        let ch = ["λ", "€", "😀"][k % 3];
        let name = format!("off{}", k);
        let text = if k % 2 == 1 || k < 60 {
            // the character ends a leading comment line
            format!(";{}{}\n(define-library ({}) (export v) (begin (define v {})))\n", "c".repeat(k - 1), ch, name, k)
        } else {
            // the character sits inside a string literal of the body
            let head = format!("(define-library ({}) (export v s) (begin (define v {}) (define s \"", name, k);
            if head.len() > k {
                continue;
            }
            format!("{}{}{} tail\")))\n", head, "s".repeat(k - head.len()), ch)
        };
        debug_assert!(text.as_bytes().len() > k);
        std::fs::write(base.join(format!("{}.sld", name)), &text).unwrap();
        let got = eval_in(&[format!("(import ({}))", name), "v".to_string()]);
        acc.evals += 1;
        acc.transitions += 1;
        acc.count("file-shape ladder: multi-byte character at byte offset k", 1);
        if got[1] != k.to_string() {
            acc.mismatch(Mismatch { idx: u64::MAX - 200, case: format!("[file-shape ladder] a healthy library file with {:?} at byte offset {}", ch, k), expected: format!(": the import succeeds and v = {}", k), observed: got.join(" ; "), payload: json!({"kind": "file-shape", "offset": k}) }, None);
        }
    }
    // names whose paths coincide
    std::fs::create_dir_all(base.join("a")).unwrap();
    std::fs::create_dir_all(base.join("x")).unwrap();
    std::fs::create_dir_all(base.join("foo")).unwrap();
    std::fs::write(base.join("a/b.sld"), "(define-library (a b) (export ab) (begin (define ab 'a-b)))\n").unwrap();
    std::fs::write(base.join("x/y.sld"), "(define-library (x/y) (import (x y)) (export xy2) (begin (define xy2 xy)))\n(define-library (x y) (export xy) (begin (define xy 'x-y)))\n").unwrap();
    std::fs::write(base.join("foo/1.sld"), "(define-library (foo |1|) (export f1) (begin (define f1 'foo-bar-1)))\n").unwrap();
    let cases: Vec<(Vec<&str>, &str, fn(&[String]) -> bool)> = vec![
        (vec!["(import (a b))", "ab"], "a-b", |g| g[1] == "a-b"),
        (vec!["(import (a/b))", "ab"], "an error for the import (the file defines (a b), not (a/b)) and ab unbound", |g| g[0].starts_with("error") && g[1].starts_with("error")),
        (vec!["(import (x y))", "xy"], "x-y", |g| g[1] == "x-y"),
        (vec!["(import (x/y))", "xy2"], "x-y", |g| g[1] == "x-y"),
        (vec!["(import (foo 1))", "f1"], "an error for the import (the file defines (foo |1|), not (foo 1)) and f1 unbound", |g| g[0].starts_with("error") && g[1].starts_with("error")),
        (vec!["(import (foo |1|))", "f1"], "foo-bar-1", |g| g[1] == "foo-bar-1"),
    ];
    // healthy libraries of less common shapes: several begin declarations with a private macro
    // defined in one and used in a later one, exports before / between / after the bodies, an empty
    // begin, a body that ends in an expression
    std::fs::write(base.join("shape1.sld"), "(define-library (shape1)\n  (begin (define-syntax twice (syntax-rules () ((twice e) (quote (e e))))))\n  (export s1)\n  (begin)\n  (begin (define s1 (twice x))))\n").unwrap();
    std::fs::write(base.join("shape2.sld"), "(define-library (shape2)\n  (export s2)\n  (begin (define hidden 4))\n  (export s2b)\n  (begin (define s2 hidden) (define s2b 'b) 'trailing-expression))\n").unwrap();
    std::fs::write(base.join("shape3.sld"), "(define-library (shape3) (import (shape1)) (import (shape2)) (export s3) (begin (define s3 s2)) (begin (define unused s1)))\n").unwrap();
    let shapes: Vec<(Vec<&str>, &str, fn(&[String]) -> bool)> = vec![
        (vec!["(import (shape1))", "s1"], "(x x)", |g| g[1] == "(x x)"),
        (vec!["(import (shape2))", "s2"], "4", |g| g[1] == "4"),
        (vec!["(import (shape2))", "s2b"], "b", |g| g[1] == "b"),
        (vec!["(import (shape3))", "s3"], "4", |g| g[1] == "4"),
        (vec!["(import (shape3) (shape1))", "s1"], "(x x)", |g| g[1] == "(x x)"),
    ];
    let cases: Vec<(Vec<&str>, &str, fn(&[String]) -> bool)> = cases.into_iter().chain(shapes).collect();
    for (forms, want, ok) in cases {
        let fs: Vec<String> = forms.iter().map(|s| s.to_string()).collect();
        let got = eval_in(&fs);
        acc.evals += 1;
        acc.transitions += 1;
        acc.count("library names whose file paths coincide", 1);
        if !ok(&got) {
            acc.mismatch(Mismatch { idx: u64::MAX - 201, case: format!("[names with coinciding paths] {}", forms.join(" ")), expected: format!(": {}", want), observed: got.join(" ; "), payload: json!({"kind": "file-shape", "offset": 0}) }, None);
        }
    }
    let _ = std::fs::remove_dir_all(&base);
}

pub fn run(ctx: &Ctx) -> i32 {
    let sp = Space::new(ctx.thorough());
    let total = sp.total();
    let h3 = sp.h3();
    let res = run_sharded(vec!["C14".into(), ctx.tier_name()], total, crate::par::nthreads());
    let mut acc = Acc::new();
    let mut covered = vec![0u8; total as usize];
    for r in &res.records {
        let (f, u) = (r["from"].as_u64().unwrap_or(0), r["upto"].as_u64().unwrap_or(0));
        for k in f..=u {
            covered[k as usize] = covered[k as usize].saturating_add(1);
        }
        acc.evals += r["evals"].as_u64().unwrap_or(0);
        acc.transitions += r["transitions"].as_u64().unwrap_or(0);
        if let Some(h) = r["hist"].as_object() {
            for (k, v) in h {
                *acc.hist.entry(k.clone()).or_insert(0) += v.as_u64().unwrap_or(0);
            }
        }
        for d in r["distinct"].as_array().cloned().unwrap_or_default() {
            acc.distinct.insert(d.as_u64().unwrap_or(0));
        }
        for s in r["samples"].as_array().cloned().unwrap_or_default() {
            acc.sample(s["index"].as_u64().unwrap_or(0), s);
        }
        for v in r["viol"].as_array().cloned().unwrap_or_default() {
            acc.mismatch(
                Mismatch { idx: v["idx"].as_u64().unwrap_or(0), case: v["case"].as_str().unwrap_or("").to_string(), expected: format!(": one of {} (empty set = success)", v["expected"].as_str().unwrap_or("")), observed: v["observed"].as_str().unwrap_or("").to_string(), payload: json!({"index": v["idx"], "tier": ctx.tier_name(), "history": v["history"], "registered": v["registered"]}) },
                None,
            );
        }
    }
    two_program_directories(&mut acc);
    file_shape_ladder(&mut acc, 700);
    // a configuration that killed its worker: importing did not terminate normally
    for d in &res.deaths {
        covered[d.index as usize] = covered[d.index as usize].saturating_add(1);
        let c = sp.config(d.index, &h3);
        acc.mismatch(
            Mismatch { idx: d.index, case: format!("[worker death] {}", c.describe()), expected: ": every import attempt terminates with a value or an error".into(), observed: format!("worker process died: {} {}", d.class, d.detail), payload: json!({"index": d.index, "tier": ctx.tier_name(), "death": d.class}) },
            None,
        );
    }
    let uncovered = covered.iter().filter(|c| **c == 0).count();
    let doubled = covered.iter().filter(|c| **c > 1).count();
    acc.count("configurations-uncovered", uncovered as u64);
    acc.count("configurations-covered-twice", doubled as u64);
    for e in &res.machinery_errors {
        acc.notes.push(format!("MACHINERY: {}", e));
    }
    acc.states = total;
    acc.validated = acc.transitions;
    let code = report::finish(
        acc,
        RunInfo {
            id: "C14".into(),
            tier: ctx.tier_name(),
            seed: ctx.seed,
            exhaustive: true,
            rule: format!("every directed graph (self-loops allowed) on 1 and 2 libraries with every assignment of 9 node healths (healthy, missing, faulting body, wrong name in file, syntactically broken, not UTF-8 in the first line, not UTF-8 in a comment after the complete form, path is a directory, healthy behind another library definition in the same source); library files span several lines; every graph on 3 libraries (512) with {}; the library-to-library edges written as plain names and, for all configurations on <= 2 libraries and the all-healthy graphs on 3, as only / prefix / rename / except / mixed / empty-only import sets; for each configuration every history of import attempts on one interpreter (length 3 on <= 2 libraries{}; maximal histories cover their prefixes), with the libraries as files under the program directory (decoy libraries with other values in the working directory) and as registered sources; states = configurations, transitions = import attempts; plus every sequence of <= 3 program files from three directories evaluated on one interpreter (each imports a library that lives next to it, decoys everywhere else), and each of these programs run through the built binary from another working directory; file-shape ladder: a healthy library file with a 2/3/4-byte character starting at every byte offset 1..700 (in a comment / inside a string of the body); library names whose file paths coincide ((a b) vs (a/b), (foo 1) vs (foo |1|)) stay different libraries; healthy libraries of less common shapes (several begin declarations with a private macro defined in one and used in a later one, exports between the bodies, an empty begin, a trailing expression); the binary started in a working directory that has been removed", if ctx.thorough() { "every health assignment (729)" } else { "at most one unhealthy node (25 assignments)" }, if ctx.thorough() { ", length 3 on 3 libraries with at most one unhealthy node, otherwise 2" } else { ", length 2 on 3 libraries" }),
            bounds: json!({"configurations": total, "worker_deaths": res.deaths.len()}),
            assumptions: vec!["reference loader: cyclic-import error iff a cycle is reachable through readable libraries, the underlying error kind iff an unhealthy library is reachable, either when both, success otherwise; shared dependencies are not cycles".into(), "hook H2 (verif_in_progress) gives the in-progress set".into()],
            wall_s: ctx.elapsed(),
            extra: json!({}),
        },
    );
    if uncovered > 0 || doubled > 0 {
        eprintln!("MACHINERY-ERROR: coverage accounting failed ({} uncovered, {} doubled)", uncovered, doubled);
        // violations already found and printed stand (a tree on which thousands of configurations
        // kill their worker exhausts the supervisor's budget of deaths); without any, an
        // incomplete sweep is no verdict
        if code == 0 {
            return 2;
        }
    }
    code
}

pub fn replay(p: &serde_json::Value) -> bool {
    if p["kind"] == "file-shape" {
        let mut acc = Acc::new();
        file_shape_ladder(&mut acc, 700);
        for v in &acc.violations {
            println!("{}\n  {}", v.case, v.observed);
        }
        return acc.n_violations > 0;
    }
    if p.get("programs").is_some() {
        let mut acc = Acc::new();
        two_program_directories(&mut acc);
        for v in &acc.violations {
            println!("{}\n  {}", v.case, v.observed);
        }
        return acc.n_violations > 0;
    }
    let thorough = p["tier"] == "thorough";
    let sp = Space::new(thorough);
    let h3 = sp.h3();
    let c = sp.config(p["index"].as_u64().unwrap(), &h3);
    let base = std::path::PathBuf::from(format!("/verif/target/scratch/c14-replay-{}", std::process::id()));
    let dir = base.join("program");
    write_config(&c, &dir);
    let hist: Vec<usize> = p["history"].as_array().map(|a| a.iter().map(|x| x.as_u64().unwrap() as usize).collect()).unwrap_or_else(|| vec![0]);
    let registered = p["registered"].as_bool().unwrap_or(false);
    println!("{} ; attempts {:?} ; registered={}", c.describe(), hist, registered);
    let r = run_history(&c, &hist, registered, &dir);
    let _ = std::fs::remove_dir_all(&base);
    let mut bad = false;
    for (x, obs, ok) in r.attempts {
        println!("  import ({}) => {}  (acceptable errors {:?}) {}", NAMES[x], obs, reference_outcome(&c, x, registered), if ok { "" } else { "<-- VIOLATES" });
        bad |= !ok;
    }
    bad
}

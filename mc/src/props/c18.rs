//! C18 — a REPL session equals evaluating its forms in sequence.
//! (1) E-sweep of the completeness predicate (hook H1) over all strings up to a length;
//! (2) every sequence of input lines up to a length from a fragment menu, fed to the built binary
//!     over a pipe; the transcript must equal the reference REPL (submissions cut by the reference
//!     completeness predicate, evaluated in sequence on one interpreter through the library API).
use crate::drive::guarded;
use crate::report::{self, hash_of, Acc, Mismatch, RunInfo};
use crate::{par, Ctx};
use ruschm::interpreter::Interpreter;
use ruschm::values::Value;
use serde_json::json;
use std::io::Write;
use std::process::{Command, Stdio};

pub const ALPHABET: &[char] = &['(', ')', '"', ';', '|', '#', '\\', 'a', ' ', '\n'];
pub const DEFAULT_BIN: &str = "/verif/target/repo-bin/debug/ruschm";
/// the built ruschm binary (RUSCHM_BIN overrides the default: frozen copies for long runs)
pub fn bin() -> String {
    std::env::var("RUSCHM_BIN").unwrap_or_else(|_| DEFAULT_BIN.to_string())
}

/// reference completeness: every list opened by the text is closed; parentheses inside strings,
/// |symbols|, #\c characters and comments do not count
pub fn complete(text: &str) -> bool {
    let cs: Vec<char> = text.chars().collect();
    let mut depth: i64 = 0;
    let mut i = 0;
    while i < cs.len() {
        match cs[i] {
            '(' => depth += 1,
            ')' => depth -= 1,
            ';' => {
                while i < cs.len() && cs[i] != '\n' {
                    i += 1;
                }
                continue;
            }
            '"' => {
                i += 1;
                while i < cs.len() && cs[i] != '"' {
                    if cs[i] == '\\' {
                        i += 1;
                    }
                    i += 1;
                }
            }
            '|' => {
                i += 1;
                while i < cs.len() && cs[i] != '|' {
                    i += 1;
                }
            }
            '#' => {
                if i + 1 < cs.len() && cs[i + 1] == '\\' {
                    // the character after #\ is part of the token, whatever it is
                    i += 2;
                }
            }
            _ => {}
        }
        i += 1;
    }
    depth <= 0
}

/// DEFECT MODEL of the pinned tree: parentheses are counted everywhere except in comments
pub fn complete_naive(text: &str) -> bool {
    let mut count = 0i64;
    let mut in_comment = false;
    for c in text.chars() {
        match (c, in_comment) {
            ('(', false) => count += 1,
            (')', false) => count -= 1,
            (';', false) => in_comment = true,
            ('\n', true) => in_comment = false,
            _ => {}
        }
    }
    count <= 0
}

fn nth_string(mut i: u64, len: usize) -> String {
    let k = ALPHABET.len() as u64;
    let mut s = Vec::with_capacity(len);
    for _ in 0..len {
        s.push(ALPHABET[(i % k) as usize]);
        i /= k;
    }
    s.iter().rev().collect()
}

pub const FRAGMENTS: &[&str] = &[
    "(define x 5)",
    "x",
    "(+ x 1)",
    "(vector-set! (vector 1) 0 2)",
    "(car '())",
    "(define y 1) (+ y 10)",
    "(+ 1",
    "2)",
    "(list 1 ; comment with (paren",
    "  (string? \"(\") (char? #\\() '|a(|)",
    ")",
    "(define (f a)",
    "  (* a 2))",
    "(f 4)",
    "undefined-name",
    "(string? \")\")",
    "(define z 9) (if)",
    "z",
    // a closing line with more text after the parenthesis that completes the form
    "2) ; closes the sum",
    "2) x",
    // a submission whose LAST form is a definition prints nothing, whatever came before it
    "(+ x 1) (define w 10)",
    "x (define-syntax k (syntax-rules () ((k) 5))) ",
    "(k)",
    // a definition whose value depends on the state it changes: evaluated exactly once
    "(define x (+ x 1))",
    "(define y (+ y 1))",
    "y",
    // tokens that span input lines (the line break belongs to the token), and an empty line
    "(list \"a",
    "(list \"a  \t",
    "b\" '|c",
    "d|)",
    "",
    // values whose printed form is empty: the REPL still prints a line for them
    "\"\"",
    "(quote ||)",
    // the space character as the last token of a line; a continuation line that starts with blanks inside a string
    "(list 1 #\\ ",
    "   b\" 7)",
    // a procedure entered over two lines whose fault (on its second line) shows when it is called
    // from a later one-line submission
    "(define (h a)",
    "  (nosuch-procedure a))",
    "(h 1)",
];

#[derive(Debug, PartialEq, Clone)]
pub struct Transcript {
    pub stdout: Vec<String>,
    pub stderr: Vec<String>,
}

/// reference REPL over input lines
pub fn reference_session(lines: &[&str], predicate: fn(&str) -> bool) -> Result<Transcript, String> {
    guarded(|| {
        let mut it = Interpreter::<f32>::new_with_stdlib();
        let version = std::fs::read_to_string("/repo/Cargo.toml")
            .ok()
            .and_then(|t| t.lines().find(|l| l.starts_with("version")).map(|l| l.split('"').nth(1).unwrap_or("").to_string()))
            .unwrap_or_default();
        let mut out = vec![format!("Ruschm Version {}", version)];
        let mut err = vec![];
        let mut pending = String::new();
        for l in lines {
            // an empty line is nothing when no form is pending; inside a pending form it is a line
            // break like any other (it may sit inside a string or |symbol|)
            if l.is_empty() && pending.is_empty() {
                continue;
            }
            pending.push_str(l);
            if predicate(&pending) {
                // "evaluating the same forms one after another": the submission is split into its
                // forms by the reference reader and each form is evaluated on its own; the value of
                // the last one is printed, the first error ends the submission
                let forms: Vec<String> = match crate::reflex::tokenize(&pending, crate::reflex::Mode::default()) {
                    crate::reflex::Lexed::Tokens(t) => match crate::reflex::read_all(&t) {
                        Ok(data) => data.iter().map(|d| d.to_string()).collect(),
                        Err(_) => vec![pending.clone()],
                    },
                    _ => vec![pending.clone()],
                };
                let mut last = Ok(None);
                for f in &forms {
                    // hook H3: a form that recurses without end (some line combinations define one)
                    // must not exhaust the stack of the harness
                    ruschm::interpreter::verif_set_fuel(20_000);
                    last = it.eval(f.chars());
                    ruschm::interpreter::verif_set_fuel(u64::MAX);
                    if last.is_err() {
                        break;
                    }
                }
                if let Err(e) = &last {
                    if format!("{}", e).contains("verif: evaluation fuel exhausted") {
                        panic!("NON-TERMINATING-SESSION");
                    }
                }
                match last {
                    Ok(Some(Value::Void)) | Ok(None) => {}
                    // (the binary's output is compared line by line)
                    Ok(Some(v)) => out.extend(format!("{}", v).split('\n').map(|l| l.to_string())),
                    Err(e) => err.push(format!("{}", e)),
                }
                pending.clear();
            } else {
                pending.push('\n');
            }
        }
        out.push("exited. have a nice day.".to_string());
        Transcript { stdout: out, stderr: err }
    })
}

pub fn binary_session(lines: &[&str]) -> Result<Transcript, String> {
    let mut child = Command::new(bin()).stdin(Stdio::piped()).stdout(Stdio::piped()).stderr(Stdio::piped()).spawn().map_err(|e| format!("spawn {}: {}", bin(), e))?;
    {
        let mut stdin = child.stdin.take().unwrap();
        let mut text = lines.join("\n");
        text.push('\n');
        let _ = stdin.write_all(text.as_bytes());
    }
    let o = child.wait_with_output().map_err(|e| format!("wait: {}", e))?;
    let split = |b: &[u8]| String::from_utf8_lossy(b).lines().map(|l| l.to_string()).collect::<Vec<_>>();
    if !o.status.success() {
        return Err(format!("binary exited with {:?}; stderr: {}", o.status.code(), String::from_utf8_lossy(&o.stderr)));
    }
    Ok(Transcript { stdout: split(&o.stdout), stderr: split(&o.stderr) })
}

fn session(i: u64, len: usize) -> Vec<&'static str> {
    let k = FRAGMENTS.len() as u64;
    let mut v = Vec::with_capacity(len);
    let mut i = i;
    for _ in 0..len {
        v.push(FRAGMENTS[(i % k) as usize]);
        i /= k;
    }
    v.reverse();
    v
}

/// every split of a form at a token gap into two lines (the transcript must not depend on it)
pub fn split_sessions() -> Vec<Vec<String>> {
    let forms = [
        "(define (g a b) (list a (* b 2)))",
        "(g 1 (+ 2 3))",
        "(let ((p 1) (q \"a(b\")) (list p q))",
        "(cond ((= 1 2) 'no) (else (car '(yes))))",
        // dotted pairs and rest parameters: a line may end right after the dot
        "(cdr '(1 . 2))",
        "((lambda (a . r) (list a r)) 1 2 3)",
        "(car (cdr '(1 2 . (3 4))))",
        // forms that are rejected while being read / expanded: the message is the same however split
        "(import (scheme #t))",
        "(define-syntax bad (syntax-rules 5 ((bad) 1)))",
        "(define-syntax bad2 (syntax-rules () ((bad2 a) (a ... ...))))",
        "(lambda (a 5) a)",
        "(let ((a 1) 2) a)",
    ];
    let mut out = vec![];
    for f in forms {
        let toks: Vec<&str> = f.split(' ').collect();
        for cut in 1..toks.len() {
            let mut lines: Vec<String> = vec!["(define (g a b) (list a (* b 2)))".into()];
            lines.push(toks[..cut].join(" "));
            lines.push(toks[cut..].join(" "));
            lines.push("(g 0 0)".into());
            out.push(lines);
        }
    }
    out
}

/// one session: reference transcript, binary transcript, verdict (runs in a worker process)
pub fn judge_session(lines: &[&str]) -> serde_json::Value {
    let want = reference_session(lines, complete);
    if matches!(&want, Err(p) if p.contains("NON-TERMINATING-SESSION")) {
        return json!({"excluded": "a form of the session does not terminate (outside the claim)"});
    }
    let got = binary_session(lines);
    if matches!(&got, Err(e) if e.contains("has overflowed its stack")) {
        // (the deepest forms of the nesting ladder exceed the 8 MB main-thread stack of a debug build)
        return json!({"excluded": "the binary exhausted its host stack on a deeply nested form (resource exhaustion, outside the claim)"});
    }
    let class = match &got {
        Ok(t) if t.stderr.is_empty() => "session without error",
        Ok(_) => "session with error message",
        Err(_) => "binary failed",
    };
    let ok = match (&want, &got) {
        (Ok(w), Ok(g)) => w == g,
        _ => false,
    };
    let mut known = serde_json::Value::Null;
    if !ok {
        // defect model: the same session under the naive completeness predicate
        let naive = reference_session(lines, complete_naive);
        if let (Ok(n), Ok(g)) = (&naive, &got) {
            if n == g && lines.iter().any(|l| l.contains('"') || l.contains("#\\") || l.contains('|')) {
                known = json!("repl-counts-parens-inside-tokens");
            }
        }
    }
    json!({"ok": ok, "want": format!("{:?}", want), "got": format!("{:?}", got), "class": class, "hash": hash_of(&format!("{:?}", got)), "known": known, "excluded": null})
}

/// worker process entry: `mc worker C18` — one JSON request {lines} per line
pub fn worker(_args: &[String]) {
    crate::supervise::worker_init(60_000, 16 << 30);
    let stdin = std::io::stdin();
    let mut line = String::new();
    let mut n = 0u64;
    loop {
        line.clear();
        match stdin.read_line(&mut line) {
            Ok(0) | Err(_) => break,
            Ok(_) => {}
        }
        let j: serde_json::Value = match serde_json::from_str(line.trim()) {
            Ok(j) => j,
            Err(_) => break,
        };
        let lines: Vec<String> = j["lines"].as_array().map(|a| a.iter().map(|x| x.as_str().unwrap_or("").to_string()).collect()).unwrap_or_default();
        crate::supervise::case_begin(n);
        let r = crate::drive::on_fresh_thread(move || {
            let ls: Vec<&str> = lines.iter().map(|s| s.as_str()).collect();
            judge_session(&ls)
        });
        crate::supervise::case_end();
        n += 1;
        crate::supervise::emit(&r.to_string());
    }
}

pub fn run(ctx: &Ctx) -> i32 {
    if !std::path::Path::new(&bin()).exists() {
        eprintln!("MACHINERY-ERROR: {} not built", bin());
        return 2;
    }
    // ---- (1) completeness predicate ----
    let maxlen: usize = if ctx.thorough() { 8 } else { 7 };
    let k = ALPHABET.len() as u64;
    let mut offsets = vec![0u64];
    for l in 0..=maxlen {
        offsets.push(offsets[l] + k.pow(l as u32));
    }
    let n_pred = *offsets.last().unwrap();
    let offs = &offsets;
    let mut acc = par::sweep(
        n_pred,
        1 << 16,
        |_| (),
        |_, acc: &mut Acc, i| {
            let l = offs.iter().rposition(|o| *o <= i).unwrap();
            let s = nth_string(i - offs[l], l);
            let want = complete(&s);
            let got = ruschm::repl::verif_check_bracket_closed(&s);
            acc.evals += 1;
            acc.outcome_class(if got { "complete" } else { "incomplete" });
            if i % 9973 == 0 {
                acc.distinct_hash(hash_of(&(got, s.matches('(').count(), s.matches(')').count(), s.contains('"'), s.contains(';'))));
            }
            if i % (n_pred / 4 + 1) == 77 {
                acc.sample(i, json!({"text": s, "complete": got}));
            }
            if want != got {
                let known = if got == complete_naive(&s) { Some("repl-counts-parens-inside-tokens") } else { None };
                acc.mismatch(
                    Mismatch { idx: i, case: format!("[predicate] {:?}", s), expected: format!(": complete = {}", want), observed: format!("complete = {}", got), payload: json!({"kind": "predicate", "text": s}) },
                    known,
                );
            }
        },
    );
    // scale ladder for the predicate: nesting depth and token length up to 400
    for n in 1..=400usize {
        let texts = [
            format!("{}{}", "(".repeat(n), ")".repeat(n)),
            format!("{}{}", "(".repeat(n), ")".repeat(n - 1)),
            format!("{}\n{}", "(a ".repeat(n), ")".repeat(n)),
            format!("{}\n{}", "(a ".repeat(n), ")".repeat(n - 1)),
            format!("(\"{}\")", "(".repeat(n)),
            format!("(\"{}", "(".repeat(n)),
            format!("(|{}| ;{}\n)", ")".repeat(n), "(".repeat(n)),
            format!("(|{}| ;{}\n", ")".repeat(n), "(".repeat(n)),
        ];
        for s in texts {
            let want = complete(&s);
            acc.evals += 1;
            acc.count("scale ladder: predicate on nesting depth / token length N", 1);
            match crate::drive::guarded(|| ruschm::repl::verif_check_bracket_closed(&s)) {
                Ok(got) if got == want => {}
                other => {
                    let known = matches!(&other, Ok(got) if *got == complete_naive(&s)).then_some("repl-counts-parens-inside-tokens");
                    acc.mismatch(Mismatch { idx: 900_000_000_000 + n as u64, case: format!("[predicate, n={}] {:?}", n, s), expected: format!(": complete = {}", want), observed: format!("{:?}", other), payload: json!({"kind": "predicate", "text": s}) }, known);
                }
            }
        }
    }
    // ---- (2) sessions through the built binary ----
    let max_lines = 3;
    let kf = FRAGMENTS.len() as u64;
    let mut soffs = vec![0u64];
    for l in 1..=max_lines {
        soffs.push(soffs[l - 1] + kf.pow(l as u32));
    }
    let n_sess = *soffs.last().unwrap();
    let mut splits = split_sessions();
    if ctx.thorough() {
        // every 4-line session over the first 18 fragments
        for i in 0..18u64.pow(4) {
            let mut v = vec![];
            let mut x = i;
            for _ in 0..4 {
                v.push(FRAGMENTS[(x % 18) as usize].to_string());
                x /= 18;
            }
            v.reverse();
            splits.push(v);
        }
    }
    // scale ladder: one form nested N deep for every N, entered on one line, split in the middle,
    // and one level per line; a long string / |symbol| / comment full of parentheses
    let deep = if ctx.thorough() { 400 } else { 200 };
    for n in 1..=deep {
        let open = "(+ 1 ".repeat(n);
        let close = ")".repeat(n);
        let wrap = |mid: Vec<String>| {
            let mut v = vec!["(define base 1000)".to_string()];
            v.extend(mid);
            v.push("base".to_string());
            v
        };
        match n % 3 {
            0 => splits.push(wrap(vec![format!("{}0{}", open, close)])),
            1 => splits.push(wrap(vec![format!("{}0{}", open, &close[..n / 2]), close[n / 2..].to_string()])),
            _ => {
                let mut lines: Vec<String> = (0..n).map(|_| "(+ 1".to_string()).collect();
                lines.push(format!("0{}", close));
                splits.push(wrap(lines));
            }
        }
        if n % 10 == 0 {
            splits.push(wrap(vec![format!("(list \"{}", "(".repeat(n)), format!("{}\" '|{}|", ")".repeat(n / 2), "(".repeat(n)), format!("; {}", "(".repeat(n)), ")".to_string()]));
        }
    }
    let total = n_sess + splits.len() as u64;
    let (so, sp) = (&soffs, &splits);
    let sacc = par::sweep(
        total,
        8,
        |_| crate::supervise::ProcWorker::new(vec!["C18".into()], 300),
        |w, acc: &mut Acc, i| {
            let owned: Vec<String>;
            let lines: Vec<&str> = if i < n_sess {
                let l = so.iter().rposition(|o| *o <= i).unwrap() + 1;
                session(i - so[l - 1], l)
            } else {
                owned = sp[(i - n_sess) as usize].clone();
                owned.iter().map(|s| s.as_str()).collect()
            };
            acc.evals += 1;
            acc.transitions += lines.len() as u64;
            acc.count("sessions", 1);
            // reference and binary run in a worker process that is replaced every few hundred
            // sessions (each session's interpreter is never freed by the implementation)
            let j = match w.request(&json!({"lines": lines})) {
                Ok(j) => j,
                Err(e) => json!({"ok": false, "want": "a transcript", "got": format!("the session killed its worker process: {}", e), "class": "worker died", "hash": 0, "known": null, "excluded": null}),
            };
            if let Some(why) = j["excluded"].as_str() {
                acc.exclude(why, || lines.join(" / "));
                return;
            }
            acc.distinct_hash(j["hash"].as_u64().unwrap_or(0));
            acc.outcome_class(j["class"].as_str().unwrap_or(""));
            if i % (total / 5 + 1) == 3 {
                acc.sample(n_pred + i, json!({"lines": lines, "transcript": j["got"]}));
            }
            if j["ok"] != true {
                let known = if j["known"].is_string() { Some("repl-counts-parens-inside-tokens") } else { None };
                acc.mismatch(
                    Mismatch { idx: n_pred + i, case: format!("[session] {}", lines.join("\n")), expected: format!(": {}", j["want"].as_str().unwrap_or("")), observed: j["got"].as_str().unwrap_or("").to_string(), payload: json!({"kind": "session", "lines": lines}) },
                    known,
                );
            }
        },
    );
    acc.merge(sacc);
    report::finish(
        acc,
        RunInfo {
            id: "C18".into(),
            tier: ctx.tier_name(),
            seed: ctx.seed,
            exhaustive: true,
            rule: format!("(1) the REPL's completeness test (hook verif_check_bracket_closed) on every string of length <= {} over {:?} against the reference predicate; (2) every sequence of <= {} input lines from {} fragments (thorough: also every 4-line sequence over the first 18) (definitions, values, unspecified values, failing forms, two forms on one line, halves of forms, a comment / string / character / |symbol| containing a parenthesis, a lone closing parenthesis) plus every two-line split of twelve forms at every token gap, plus one form nested N deep for every N <= 200 (thorough 400) on one line / split in the middle / one level per line, and long tokens full of parentheses; the predicate also on nesting depth and token length up to 400; fed to the built binary over a pipe; transcript (stdout and stderr lines) compared with the reference REPL; transitions = input lines", maxlen, ALPHABET, max_lines, FRAGMENTS.len()),
            bounds: json!({"predicate_strings": n_pred, "max_len": maxlen, "sessions": total, "max_lines": max_lines}),
            assumptions: vec!["the reference REPL evaluates submissions through the library interface on one interpreter (the property's own differential); terminal mode (line editing, history, Ctrl-C) is not driven".into()],
            wall_s: ctx.elapsed(),
            extra: json!({"fragments": FRAGMENTS}),
        },
    )
}

pub fn replay(p: &serde_json::Value) -> bool {
    if p["kind"] == "predicate" {
        let s = p["text"].as_str().unwrap();
        let (w, g) = (complete(s), crate::drive::guarded(|| ruschm::repl::verif_check_bracket_closed(s)));
        println!("{:?}: reference {} implementation {:?}", s, w, g);
        return g != Ok(w);
    }
    let lines: Vec<String> = p["lines"].as_array().unwrap().iter().map(|l| l.as_str().unwrap().to_string()).collect();
    let l: Vec<&str> = lines.iter().map(|s| s.as_str()).collect();
    let (w, g) = (reference_session(&l, complete), binary_session(&l));
    println!("lines: {:?}\nexpected {:?}\nobserved {:?}", lines, w, g);
    match (w, g) {
        (Ok(w), Ok(g)) => w != g,
        _ => true,
    }
}

//! C11 — the list library computes what its specification says.
//! E-sweep: every library procedure on every argument tuple of its (small, exhaustive) domain,
//! compositions, and a ladder of lengths; judged by refsem's list functions (value + tick trace).
use crate::drive::{Interp, Outcome};
use crate::refsem::{rmatch, show_result, Machine, POLICIES};
use crate::report::{self, hash_of, Acc, Mismatch, RunInfo};
use crate::sexp::parse1;
use crate::{par, Ctx};
use serde_json::json;

pub struct Case {
    pub text: String,
    pub tag: &'static str,
}

fn lists_over(atoms: &[&str], maxlen: usize) -> Vec<Vec<String>> {
    let mut out: Vec<Vec<String>> = vec![vec![]];
    let mut cur: Vec<Vec<String>> = vec![vec![]];
    for _ in 0..maxlen {
        let mut next = vec![];
        for l in &cur {
            for a in atoms {
                let mut m = l.clone();
                m.push(a.to_string());
                next.push(m);
            }
        }
        out.extend(next.iter().cloned());
        cur = next;
    }
    out
}

fn q(items: &[String]) -> String {
    format!("'({})", items.join(" "))
}

pub struct Domains {
    pub lists: Vec<String>,     // quoted proper lists over {1 2 a}
    pub int_lists: Vec<String>, // quoted proper lists over {1 2 3}
    pub nested: Vec<String>,
    pub improper: Vec<String>,
    pub nonlists: Vec<String>,
    pub all: Vec<String>,
}

pub fn domains(thorough: bool) -> Domains {
    let maxlen = if thorough { 4 } else { 3 };
    let lists: Vec<String> = lists_over(&["1", "2", "a"], maxlen).iter().map(|l| q(l)).collect();
    let int_lists: Vec<String> = lists_over(&["1", "2", "3"], maxlen).iter().map(|l| q(l)).collect();
    let nested: Vec<String> = lists_over(&["1", "a", "()", "(1)", "(1 2)", "(a (1))", "((1) 2)"], 2).iter().skip(1).map(|l| q(l)).collect();
    let mut improper = vec![];
    for l in lists_over(&["1", "2", "a"], 2).iter().skip(1) {
        improper.push(format!("'({} . 3)", l.join(" ")));
    }
    improper.push("'((1 . 2) . 3)".into());
    improper.push("'((1 2) (3 . 4) . 5)".into());
    let nonlists: Vec<String> = ["5", "'a", "#t", "\"s\"", "'#(1 2)", "1/2", "#\\a"].iter().map(|s| s.to_string()).collect();
    let mut all = vec![];
    all.extend(lists.iter().cloned());
    all.extend(nested.iter().cloned());
    all.extend(improper.iter().cloned());
    all.extend(nonlists.iter().cloned());
    Domains { lists, int_lists, nested, improper, nonlists, all }
}

pub fn cases(thorough: bool) -> Vec<Case> {
    let d = domains(thorough);
    let mut out: Vec<Case> = vec![];
    let mut add = |tag: &'static str, text: String| out.push(Case { text, tag });
    // accessors and predicates on every value
    let unary = [
        "car", "cdr", "caar", "cadr", "cdar", "cddr", "caaar", "caadr", "cadar", "caddr", "cdaar", "cdadr", "cddar", "cdddr", "null?", "pair?", "list?", "last-pair",
    ];
    let deep: Vec<String> = vec![
        "'(((1 2) 3) (4 5) 6)".into(),
        "'((1 (2 3)) ((4)) 5)".into(),
        "'(((1 . 2) . 3) . 4)".into(),
        "'(1 (2 (3 (4))))".into(),
        "'((((1))))".into(),
        "'((1 . (2 . (3 . ()))) (4))".into(),
    ];
    for f in unary {
        for v in d.all.iter().chain(deep.iter()) {
            add("accessor/predicate", format!("({} {})", f, v));
        }
    }
    // cons on pairs of values
    for a in d.all.iter().step_by(3) {
        for b in d.all.iter().step_by(5) {
            add("cons", format!("(cons {} {})", a, b));
        }
    }
    // list / make-list
    for l in lists_over(&["1", "'a", "'(1)"], 3) {
        add("list", format!("(list {})", l.join(" ")));
    }
    for k in 0..=4 {
        for fill in ["1", "'a", "'(1)"] {
            add("make-list", format!("(make-list {} {})", k, fill));
        }
    }
    // append: all pairs of lists, a non-list last argument, triples of short lists
    let short: Vec<String> = lists_over(&["1", "2", "a"], 2).iter().map(|l| q(l)).collect();
    for a in &d.lists {
        for b in d.lists.iter().chain(d.nonlists.iter().take(3)).chain(d.improper.iter().take(2)) {
            add("append", format!("(append {} {})", a, b));
        }
    }
    for a in &short {
        for b in &short {
            for c in short.iter().chain(std::iter::once(&"5".to_string())) {
                add("append", format!("(append {} {} {})", a, b, c));
            }
        }
    }
    add("append", "(append)".into());
    for a in d.all.iter() {
        add("append", format!("(append {})", a));
    }
    for a in &d.nested {
        add("append", format!("(append {} '(9))", a));
    }
    // map / for-each with ticking procedures: once per element, in list order
    let map_procs = ["(lambda (x) (tick x (- x 1)))", "(lambda (x) (tick x (list x x)))", "-", "(lambda (x) (tick x x))", "(lambda (x) (tick x #f))", "(lambda (x) (tick x (< x 2)))", "(lambda (x) (tick x '()))"];
    for l in &d.int_lists {
        for p in map_procs {
            add("map", format!("(map {} {})", p, l));
            add("for-each", format!("(for-each {} {})", p, l));
        }
    }
    for l in &d.nested {
        add("map", format!("(map (lambda (x) (list x)) {})", l));
        add("map", format!("(map pair? {})", l));
    }
    add("map", "(map car '((1 2) (3 4) (5)))".into());
    add("map", "(map cadr '((a b) (d e) (g h)))".into());
    // folds (minischeme argument order: (f element accumulator))
    let fold_procs = ["cons", "list", "-", "(lambda (x acc) (tick x (cons x acc)))", "(lambda (x acc) (tick x (- acc x)))", "+", "(lambda (x acc) (tick x #f))"];
    for l in &d.int_lists {
        for p in fold_procs {
            for init in ["'()", "0"] {
                if (p == "-" || p == "+" || p.contains("(- acc")) && init == "'()" {
                    continue;
                }
                add("fold-left", format!("(fold-left {} {} {})", p, init, l));
                add("fold-right", format!("(fold-right {} {} {})", p, init, l));
            }
        }
    }
    // list-tail / list-ref on all (list, index)
    for l in d.lists.iter().chain(d.improper.iter()).chain(d.nested.iter().take(12)) {
        let n = parse1(&l[1..]).nodes() as i64; // generous upper bound of the length
        for k in -1..=(n.min(5) + 1) {
            add("list-tail", format!("(list-tail {} {})", l, k));
            add("list-ref", format!("(list-ref {} {})", l, k));
        }
    }
    // memq / memv
    let objs = ["1", "2", "'a", "'b", "3", "1/2", "2/4", "1.0", "#t", "'()", "#\\a"];
    let mem_lists: Vec<String> = d
        .lists
        .iter()
        .cloned()
        .chain(["'(1/2 a)", "'(b 1.0 2)", "'(#t () #\\a)", "'((1) a)", "'(3 3 3)", "'(a b a b)"].iter().map(|s| s.to_string()))
        .collect();
    for o in objs {
        for l in &mem_lists {
            add("memq/memv", format!("(memv {} {})", o, l));
            add("memq/memv", format!("(memq {} {})", o, l));
        }
    }
    // a pair as the object: found by identity only
    add("mem-pair-identity", "(let ((p '(a))) (memq p (list 1 p 2)))".into());
    add("mem-pair-identity", "(let ((p (list 1))) (memv p (list p)))".into());
    add("mem-pair-identity", "(memq '(a) '((a)))".into()); // distinct pairs: may be #f
    // equal? on all pairs of a value set
    let mut eqs: Vec<String> = vec![];
    eqs.extend(d.lists.iter().take(14).cloned());
    eqs.extend(d.nested.iter().take(14).cloned());
    eqs.extend(d.improper.iter().take(5).cloned());
    eqs.extend(
        [
            "5", "5.0", "1/2", "2/4", "'a", "'b", "#t", "#f", "\"s\"", "\"s2\"", "\"\"", "'#(1 2)", "'#(1 2 3)", "'#()", "(vector 1 2)", "'#((1) a)", "(vector '(1) 'a)", "'#(#(1))",
            "(vector (vector 1))", "#\\a", "#\\b", "'()", "car", "'(1 #(2 (3)))", "(list 1 (vector 2 '(3)))", "'(1 #(2 (4)))",
        ]
        .iter()
        .map(|s| s.to_string()),
    );
    for a in &eqs {
        for b in &eqs {
            add("equal?", format!("(equal? {} {})", a, b));
        }
    }
    // apply with all splits of an argument list
    for f in ["list", "+", "(lambda (a . r) (list a r))", "(lambda r r)", "(lambda (a b) (list b a))", "cons"] {
        for l in lists_over(&["1", "2"], 4).iter().filter(|l| l.len() == 2 || l.len() <= 1 || l.len() == 4 && l[0] == "1") {
            for split in 0..=l.len() {
                let spread = l[..split].join(" ");
                let rest = q(&l[split..].to_vec());
                add("apply", format!("(apply {} {} {})", f, spread, rest));
            }
        }
    }
    add("apply", "(apply + '())".into());
    add("apply", "(apply list)".into());
    // compositions f (g x)
    let funs = [
        "cdr",
        "(lambda (l) (map (lambda (x) (list x)) l))",
        "(lambda (l) (append l l))",
        "(lambda (l) (list-tail l 1))",
        "last-pair",
        "(lambda (l) (fold-right cons '() l))",
        "(lambda (l) (fold-left cons '() l))",
        "(lambda (l) (cons (list? l) l))",
        "(lambda (l) (memv 2 l))",
        "(lambda (l) (list (equal? l (append l '()))))",
    ];
    for f in funs {
        for g in funs {
            for l in &d.lists {
                add("composition", format!("({} ({} {}))", f, g, l));
            }
        }
    }
    // ladder of lengths for the recursive procedures
    let ladder: &[i64] = if thorough { &[12, 100, 1000, 3000] } else { &[12, 100, 1000] };
    for &n in ladder {
        for t in [
            "(fold-left + 0 (make-list N 1))",
            "(fold-right + 0 (make-list N 2))",
            "(fold-left + 0 (map (lambda (x) (+ x 1)) (make-list N 1)))",
            "(fold-left + 0 (append (make-list N 1) (make-list N 2)))",
            "(list-tail (append (make-list N 1) '(7 8)) N)",
            "(list-ref (append (make-list N 1) '(7 8)) N)",
            "(last-pair (append (make-list N 1) '(7 . 8)))",
            "(memv 7 (append (make-list N 1) '(7 8)))",
            "(memq 'z (make-list N 'a))",
            "(equal? (make-list N '(1)) (make-list N (list 1)))",
            "(equal? (make-list N 1) (append (make-list N 1) '(1)))",
            "(list? (make-list N 1))",
            "(list? (append (make-list N 1) 5))",
            "(apply + (make-list N 1))",
            "(let ((c (vector 0))) (for-each (lambda (x) (vector-set! c 0 (+ x (vector-ref c 0)))) (make-list N 3)) (vector-ref c 0))",
        ] {
            add("ladder", t.replace("N", &n.to_string()));
        }
    }
    // scale ladder: lists of distinct elements of every length N up to the bound - every index,
    // the positions around the end, searches that succeed only at the last element
    let top = if thorough { 300 } else { 130 };
    for n in 1..=top {
        let l = format!("'({})", (0..=n).map(|i| i.to_string()).collect::<Vec<_>>().join(" "));
        for k in [n, n - 1, n / 2, n + 1] {
            add("scale", format!("(list-ref {} {})", l, k));
        }
        for k in [n, n / 2, n + 1, n + 2] {
            add("scale", format!("(list-tail {} {})", l, k));
        }
        add("scale", format!("(append {} '(x) {})", l, l));
        add("scale", format!("(map (lambda (x) (tick x (- x))) {})", l));
        add("scale", format!("(memv {} {})", n, l));
        add("scale", format!("(memq 'z {})", l));
        add("scale", format!("(last-pair {})", l));
        add("scale", format!("(apply list {})", l));
        add("scale", format!("(equal? {} (append {} '({})))", l, format!("'({})", (0..n).map(|i| i.to_string()).collect::<Vec<_>>().join(" ")), n));
        add("scale", format!("(fold-left (lambda (a x) (tick x (- a x))) 0 {})", l));
        add("scale", format!("(fold-right (lambda (x a) (tick x (- a x))) 0 {})", l));
        add("scale", format!("(list? {})", l));
        add("scale", format!("(cadr (list-tail {} {}))", l, n - 1));
    }
    // values of different types whose spelling coincides: never equivalent
    for (a, b) in [("'b", "\"b\""), ("'|1|", "1"), ("\"1\"", "1"), ("#\\a", "'a"), ("#\\a", "\"a\""), ("'()", "'#()"), ("\"\"", "'||"), ("'nil", "'()"), ("#f", "'()"), ("0", "#f"), ("'|#t|", "#t")] {
        for f in ["eqv?", "eq?", "equal?"] {
            add("scale", format!("({} {} {})", f, a, b));
            add("scale", format!("({} {} {})", f, b, a));
        }
        add("scale", format!("(memq {} (list 0 {} 2))", a, b));
        add("scale", format!("(memv {} (list 0 {} 2))", b, a));
        add("scale", format!("(equal? (list 1 (list {} 2)) (list 1 (list {} 2)))", a, b));
    }
    out
}

/// does the case leave R7RS-defined territory? (evaluated on the reference's view)
fn out_of_domain(text: &str) -> Option<&'static str> {
    if text.starts_with("(make-list -") {
        return Some("negative make-list");
    }
    None
}

pub struct CaseResult {
    pub ok: bool,
    pub excluded: Option<&'static str>,
    pub expected: String,
    pub observed: String,
    pub class: String,
    pub h: u64,
}

pub fn judge(it: &mut Interp, text: &str) -> CaseResult {
    let sx = parse1(text);
    let mut m = Machine::new(POLICIES[0]);
    m.fuel = 5_000_000;
    let r = m.eval_top(&sx);
    it.fresh_frame();
    let (o, trace) = it.eval_traced(text);
    let expected = format!("{} trace={:?}", show_result(&r), m.trace);
    let observed = format!("{} trace={:?}", o, trace);
    let class = o.class();
    let h = hash_of(&(&observed, text.split(' ').next().unwrap_or("")));
    let mut excluded = out_of_domain(text);
    // map / for-each / folds / apply on an improper list: unspecified by R7RS
    let ok = match (&r, &o) {
        (Ok(v), Outcome::Val(ob)) => rmatch(v, ob) && trace == m.trace,
        // an error (of any kind) rather than a value
        (Err(_), Outcome::Err(..)) => true,
        _ => false,
    };
    if excluded.is_none() {
        if let Err(crate::drive::ErrKind::Other(s)) = &r {
            if s == "reference-fuel-exhausted" {
                excluded = Some("reference fuel");
            }
            if s == "unspecified:non-list-argument" {
                excluded = Some("non-list given to map/for-each/fold/append (unspecified by R7RS)");
            }
        }
    }
    CaseResult { ok, excluded, expected, observed, class, h }
}

pub fn run(ctx: &Ctx) -> i32 {
    let cs = cases(ctx.thorough());
    let total = cs.len() as u64;
    let cs_ref = &cs;
    let acc = par::sweep(
        total,
        128,
        |_| Interp::must_new(),
        |it, acc: &mut Acc, i| {
            let c = &cs_ref[i as usize];
            let r = judge(it, &c.text);
            acc.evals += 1;
            acc.count(c.tag, 1);
            acc.outcome_class(&r.class);
            acc.distinct_hash(r.h);
            if i % (total / 6 + 1) == 0 {
                acc.sample(i, json!({"case": c.text, "observed": r.observed}));
            }
            if let Some(why) = r.excluded {
                acc.exclude(why, || c.text.clone());
                return;
            }
            if !r.ok {
                // known finding: pairs are values without identity, so a pair is never found by memq/memv
                let known = if c.tag == "mem-pair-identity" && r.observed.starts_with("#f ") { Some("pairs-have-no-identity") } else { None };
                acc.mismatch(
                    Mismatch { idx: i, case: c.text.clone(), expected: r.expected, observed: r.observed, payload: json!({"text": c.text}) },
                    known,
                );
            }
        },
    );
    report::finish(
        acc,
        RunInfo {
            id: "C11".into(),
            tier: ctx.tier_name(),
            seed: ctx.seed,
            exhaustive: true,
            rule: "every list-library procedure on every tuple of its argument domain (all proper lists up to the length bound over {1 2 a}, nested and improper variants, non-lists; all indices -1..len+1; ticking procedure arguments), all two-level compositions of 10 list functions, a ladder of lengths, lists of distinct elements of every length N <= 130 (thorough 300) with every procedure at the positions around the end, and pairs of values of different types with coinciding spelling under every equivalence / search; distinct = distinct (procedure, observation) pairs".into(),
            bounds: json!({"cases": cs.len(), "max_list_length": if ctx.thorough() { 4 } else { 3 }, "ladder": if ctx.thorough() { json!([12,100,1000,3000]) } else { json!([12,100,1000]) }}),
            assumptions: vec!["refsem list functions written from R7RS 6.4 (folds: minischeme argument order); an error of any kind is accepted where the reference raises one".into()],
            wall_s: ctx.elapsed(),
            extra: json!({}),
        },
    )
}

pub fn replay(p: &serde_json::Value) -> bool {
    let mut it = Interp::new().unwrap();
    let t = p["text"].as_str().unwrap();
    let r = judge(&mut it, t);
    println!("{}\nexpected: {}\nobserved: {}", t, r.expected, r.observed);
    !r.ok && r.excluded.is_none()
}

//! C01 — core evaluation yields the value Scheme semantics assigns.
//! E-sweep: every well-typed core program up to a node count (two naming disciplines), evaluated
//! form by form on a pooled real interpreter and on the reference evaluator; value and tick trace
//! must agree under one operand-order policy.
use crate::drive::{Interp, Outcome};
use crate::enumerate::{number_ticks, tl, Counter, EnvId, Grammar, Prod, Table, Tpl, Ty};
use crate::refsem::{outcome_matches, show_result, Machine, Policy, POLICIES};
use crate::report::{self, hash_of, Acc, Mismatch, RunInfo};
use crate::sexp::{parse_all, Sx};
use crate::{par, Ctx};
use serde_json::json;
use std::collections::HashMap;

pub const INT: Ty = 0;
pub const BOOL: Ty = 1;
pub const LIST: Ty = 2;
pub const TEST: Ty = 3;
pub const FUN0: Ty = 10; // FUN0+k : k Int parameters -> Int
pub const FUNV0: Ty = 20; // FUNV0+k : k Int parameters + rest -> Int
pub const HO: Ty = 30; // (Int->Int) -> Int
pub const MK: Ty = 31; // Int -> (Int->Int)
pub const BODY: Ty = 40; // body forms (list of forms), Int result
pub const PROG: Ty = 100;

/// definitions present in every program (recursion on a decreasing counter: non-tail, tail, mutual
/// through internal definitions); identical text is given to the implementation and the reference
pub const PRELUDE: &str = "
(define (down n) (if (< n 1) 0 (- (down (- n 1)) -1)))
(define (loop n acc) (if (< n 1) acc (loop (- n 1) (- acc -1))))
(define (par n) (define (ev n) (if (< n 1) 1 (od (- n 1)))) (define (od n) (if (< n 1) 0 (ev (- n 1)))) (ev n))
(define (force-all ts) (if (null? ts) '() (cons ((car ts)) (force-all (cdr ts)))))
";

pub struct CoreGrammar {
    envs: Vec<Vec<(String, Ty)>>,
    ids: HashMap<Vec<(String, Ty)>, EnvId>,
    pub shadow: bool,
    pub ticks: bool,
    /// reduced "scoping" grammar: integers, variables, -, lambda with internal definitions,
    /// calls and top-level definitions only, with maximally colliding names; goes deeper
    pub scope_only: bool,
}

impl CoreGrammar {
    pub fn new(shadow: bool, ticks: bool) -> Self {
        let mut g = CoreGrammar { envs: vec![], ids: HashMap::new(), shadow, ticks, scope_only: false };
        g.intern(vec![]);
        g
    }
    fn intern(&mut self, e: Vec<(String, Ty)>) -> EnvId {
        if let Some(i) = self.ids.get(&e) {
            return *i;
        }
        let id = self.envs.len() as EnvId;
        self.envs.push(e.clone());
        self.ids.insert(e, id);
        id
    }
    /// binder names for a new scope: role letters, either reused (shadowing) or made unique
    fn names(&self, env: EnvId, roles: &[&str]) -> Vec<String> {
        if self.shadow {
            roles.iter().map(|r| r.to_string()).collect()
        } else {
            let base = self.envs[env as usize].len();
            roles.iter().enumerate().map(|(j, r)| format!("{}{}", r, base + j)).collect()
        }
    }
    fn extend(&mut self, env: EnvId, binds: &[(String, Ty)]) -> EnvId {
        let mut e = self.envs[env as usize].clone();
        for (n, t) in binds {
            e.retain(|(m, _)| m != n); // innermost binding wins: the shadowed one is invisible
            e.push((n.clone(), *t));
        }
        self.intern(e)
    }
    /// the environment without the given names (a body's own definitions are not visible to the
    /// initialisers of its internal definitions: R7RS makes such a reference an error)
    fn without(&mut self, env: EnvId, names: &[&String]) -> EnvId {
        let mut e = self.envs[env as usize].clone();
        e.retain(|(m, _)| !names.contains(&m));
        self.intern(e)
    }
    fn vars(&self, env: EnvId, ty: Ty) -> Vec<Prod> {
        self.envs[env as usize]
            .iter()
            .filter(|(_, t)| *t == ty)
            .map(|(n, _)| Prod { cost: 1, kids: vec![], tpl: tl(n), tag: "var" })
            .collect()
    }
    fn tick(&self, ty: Ty, env: EnvId) -> Vec<Prod> {
        if self.ticks {
            vec![Prod { cost: 1, kids: vec![(ty, env)], tpl: Tpl::List(vec![tl("tick"), Tpl::Lit(Sx::Int(0)), Tpl::Hole(0)]), tag: "tick" }]
        } else {
            vec![]
        }
    }
    fn atom(x: Sx) -> Prod {
        Prod { cost: 1, kids: vec![], tpl: Tpl::Lit(x), tag: "" }
    }
    fn form(head: &str, kids: Vec<(Ty, EnvId)>, tag: &'static str) -> Prod {
        let mut t = vec![tl(head)];
        for i in 0..kids.len() {
            t.push(Tpl::Hole(i));
        }
        Prod { cost: 1, kids, tpl: Tpl::List(t), tag }
    }
    fn app(kids: Vec<(Ty, EnvId)>, tag: &'static str) -> Prod {
        let t = (0..kids.len()).map(Tpl::Hole).collect();
        Prod { cost: 1, kids, tpl: Tpl::List(t), tag }
    }
    fn params_tpl(fixed: &[String], rest: Option<&String>) -> Tpl {
        let f: Vec<Tpl> = fixed.iter().map(|n| tl(n)).collect();
        match rest {
            None => Tpl::List(f),
            Some(r) if f.is_empty() => tl(r),
            Some(r) => Tpl::Dotted(f, Box::new(tl(r))),
        }
    }
    /// (lambda PARAMS . BODY) for a signature
    fn lambda(&mut self, env: EnvId, k: usize, variadic: bool) -> Prod {
        let mut roles: Vec<&str> = ["a", "b"][..k].to_vec();
        if variadic {
            roles.push("r");
        }
        let names = self.names(env, &roles);
        let mut binds: Vec<(String, Ty)> = names[..k].iter().map(|n| (n.clone(), INT)).collect();
        if variadic {
            binds.push((names[k].clone(), LIST));
        }
        let benv = self.extend(env, &binds);
        let p = Self::params_tpl(&names[..k], if variadic { Some(&names[k]) } else { None });
        Prod {
            cost: 1,
            kids: vec![(BODY, benv)],
            tpl: Tpl::Dotted(vec![tl("lambda"), p], Box::new(Tpl::Hole(0))),
            tag: if variadic { "lambda-rest" } else { "lambda" },
        }
    }
    fn body_prods(&mut self, env: EnvId) -> Vec<Prod> {
        let mut out = vec![];
        // B0: e
        out.push(Prod { cost: 0, kids: vec![(INT, env)], tpl: Tpl::List(vec![Tpl::Hole(0)]), tag: "" });
        // B1: e0 e
        if !self.scope_only {
            out.push(Prod { cost: 1, kids: vec![(INT, env), (INT, env)], tpl: Tpl::List(vec![Tpl::Hole(0), Tpl::Hole(1)]), tag: "body-seq" });
        }
        let n = self.names(env, &["v", "g", "h", "x"]);
        let (v, g, h, x) = (n[0].clone(), n[1].clone(), n[2].clone(), n[3].clone());
        let def_v = |e: usize| Tpl::List(vec![tl("define"), tl(&v), Tpl::Hole(e)]);
        let def_p = |name: &str, e: usize| Tpl::List(vec![tl("define"), Tpl::List(vec![tl(name), tl(&x)]), Tpl::Hole(e)]);
        // B2: (define v e1) e        -- e1 must not mention v (defined by this body)
        let env_no_v = self.without(env, &[&v]);
        let env_v = self.extend(env, &[(v.clone(), INT)]);
        out.push(Prod { cost: 1, kids: vec![(INT, env_no_v), (INT, env_v)], tpl: Tpl::List(vec![def_v(0), Tpl::Hole(1)]), tag: "internal-var" });
        // B3: (define (g x) e1) e    -- e1 does not see g (no unbounded recursion)
        let env_no_g = self.without(env, &[&g]);
        let env_x = self.extend(env_no_g, &[(x.clone(), INT)]);
        let env_g = self.extend(env, &[(g.clone(), FUN0 + 1)]);
        out.push(Prod { cost: 1, kids: vec![(INT, env_x), (INT, env_g)], tpl: Tpl::List(vec![def_p(&g, 0), Tpl::Hole(1)]), tag: "internal-proc" });
        // B4: (define v e1) (define (g x) e2) e      -- g's body sees v
        let env_no_vg = self.without(env, &[&v, &g]);
        let env_v_no_g = self.extend(env_no_vg, &[(v.clone(), INT)]);
        let env_vx = self.extend(env_v_no_g, &[(x.clone(), INT)]);
        let env_vg = self.extend(env_v, &[(g.clone(), FUN0 + 1)]);
        out.push(Prod {
            cost: 2,
            kids: vec![(INT, env_no_vg), (INT, env_vx), (INT, env_vg)],
            tpl: Tpl::List(vec![def_v(0), def_p(&g, 1), Tpl::Hole(2)]),
            tag: "internal-var+proc",
        });
        // B6: (define a e1) e   -- an internal definition named like a parameter in scope (role name
        // a: only the shadowing discipline has it); e1 must not mention a
        if self.shadow && self.envs[env as usize].iter().any(|(n, t)| n == "a" && *t == INT) {
            let a = "a".to_string();
            let env_no_a = self.without(env, &[&a]);
            out.push(Prod {
                cost: 1,
                kids: vec![(INT, env_no_a), (INT, env)],
                tpl: Tpl::List(vec![Tpl::List(vec![tl("define"), tl("a"), Tpl::Hole(0)]), Tpl::Hole(1)]),
                tag: "internal-define-of-parameter-name",
            });
        }
        // B7: (define g ((lambda (k) (lambda (x) e0)) e1)) (define v e2) e
        //     -- a closure made by a CALL inside the first internal definition, whose body refers to
        //        a later internal definition of the same body (legal: it runs after v is defined)
        {
            let k = self.names(env, &["k"])[0].clone();
            let env_no_vg2 = self.without(env, &[&v, &g]);
            let env_closure = self.extend(env_no_vg2, &[(k.clone(), INT), (x.clone(), INT), (v.clone(), INT)]);
            let env_vg2 = self.extend(env_v, &[(g.clone(), FUN0 + 1)]);
            let maker = Tpl::List(vec![
                Tpl::List(vec![tl("lambda"), Tpl::List(vec![tl(&k)]), Tpl::List(vec![tl("lambda"), Tpl::List(vec![tl(&x)]), Tpl::Hole(0)])]),
                Tpl::Hole(1),
            ]);
            out.push(Prod {
                cost: 3,
                kids: vec![(INT, env_closure), (INT, env_no_vg2), (INT, env_no_vg2), (INT, env_vg2)],
                tpl: Tpl::List(vec![Tpl::List(vec![tl("define"), tl(&g), maker]), def_v(2), Tpl::Hole(3)]),
                tag: "closure-made-by-a-call-sees-later-definition",
            });
        }
        // B5: (define (g x) e1) (define (h x) e2) e   -- g's body may call h (forward reference)
        if !self.scope_only {
            let env_no_gh = self.without(env, &[&g, &h]);
            let env_x2 = self.extend(env_no_gh, &[(x.clone(), INT)]);
            let env_xh = self.extend(env_x2, &[(h.clone(), FUN0 + 1)]);
            let env_gh = self.extend(env_g, &[(h.clone(), FUN0 + 1)]);
            out.push(Prod {
                cost: 2,
                kids: vec![(INT, env_xh), (INT, env_x2), (INT, env_gh)],
                tpl: Tpl::List(vec![def_p(&g, 0), def_p(&h, 1), Tpl::Hole(2)]),
                tag: "internal-forward-ref",
            });
        }
        out
    }
    fn fun_sigs() -> Vec<(Ty, usize, bool)> {
        vec![(FUN0, 0, false), (FUN0 + 1, 1, false), (FUN0 + 2, 2, false), (FUNV0, 0, true), (FUNV0 + 1, 1, true)]
    }
    /// scoping grammar: top-level names collide with the internal-definition names (v, g)
    fn scope_prog_prods(&mut self, env: EnvId) -> Vec<Prod> {
        let mut out = vec![];
        let (v, g) = ("v".to_string(), "g".to_string());
        out.push(Prod { cost: 0, kids: vec![(INT, env)], tpl: Tpl::List(vec![Tpl::Hole(0)]), tag: "prog-expr" });
        let env_v = self.extend(env, &[(v.clone(), INT)]);
        let env_g = self.extend(env, &[(g.clone(), FUN0 + 1)]);
        let env_g0 = self.extend(env, &[(g.clone(), FUN0)]);
        let env_vg = self.extend(env_v, &[(g.clone(), FUN0 + 1)]);
        let env_vg0 = self.extend(env_v, &[(g.clone(), FUN0)]);
        let dv = |h: usize| Tpl::List(vec![tl("define"), tl(&v), Tpl::Hole(h)]);
        // (define v e) probe
        out.push(Prod { cost: 1, kids: vec![(INT, env), (INT, env_v)], tpl: Tpl::List(vec![dv(0), Tpl::Hole(1)]), tag: "define-var" });
        // (define v e1) (define v e2) probe      -- redefinition in the same frame; e2 sees the old v
        out.push(Prod { cost: 2, kids: vec![(INT, env), (INT, env_v), (INT, env_v)], tpl: Tpl::List(vec![dv(0), dv(1), Tpl::Hole(2)]), tag: "redefine-var" });
        for (k, penv, pvenv) in [(1usize, env_g, env_vg), (0usize, env_g0, env_vg0)] {
            // (define (g a) . body) probe       and      (define v e) (define (g a) . body) probe
            let l = self.lambda(env, k, false);
            let lv = self.lambda(env_v, k, false);
            let sig = |l: &Prod| match &l.tpl {
                Tpl::Dotted(t, _) => match &t[1] {
                    Tpl::List(ps) => {
                        let mut s = vec![tl(&g)];
                        s.extend(ps.iter().cloned());
                        Tpl::List(s)
                    }
                    _ => unreachable!(),
                },
                _ => unreachable!(),
            };
            let dg = |l: &Prod, h: usize| Tpl::Dotted(vec![tl("define"), sig(l)], Box::new(Tpl::Hole(h)));
            out.push(Prod { cost: 1, kids: vec![l.kids[0], (INT, penv)], tpl: Tpl::List(vec![dg(&l, 0), Tpl::Hole(1)]), tag: "define-sugar" });
            out.push(Prod { cost: 2, kids: vec![(INT, env), lv.kids[0], (INT, pvenv)], tpl: Tpl::List(vec![dv(0), dg(&lv, 1), Tpl::Hole(2)]), tag: "two-defs" });
            // (define (g a) . body1) (define (g a) . body2) probe      -- the second definition replaces the first
            out.push(Prod { cost: 2, kids: vec![l.kids[0], l.kids[0], (INT, penv)], tpl: Tpl::List(vec![dg(&l, 0), dg(&l, 1), Tpl::Hole(2)]), tag: "redefine-proc" });
        }
        out
    }
    fn prog_prods(&mut self, env: EnvId) -> Vec<Prod> {
        if self.scope_only {
            return self.scope_prog_prods(env);
        }
        let mut out = vec![];
        let probes = [INT, LIST, BOOL];
        for p in probes {
            out.push(Prod { cost: 0, kids: vec![(p, env)], tpl: Tpl::List(vec![Tpl::Hole(0)]), tag: "prog-expr" });
        }
        // one definition + probe
        for (ty, k, variadic) in Self::fun_sigs() {
            let tf = "tf".to_string();
            let penv = self.extend(env, &[(tf.clone(), ty)]);
            // sugar spelling
            let lam = self.lambda(env, k, variadic);
            let (benv, ptpl) = match &lam.tpl {
                Tpl::Dotted(v, _) => (lam.kids[0].1, v[1].clone()),
                _ => unreachable!(),
            };
            let sig = match ptpl {
                Tpl::List(ps) => {
                    let mut s = vec![tl(&tf)];
                    s.extend(ps);
                    Tpl::List(s)
                }
                Tpl::Dotted(ps, r) => {
                    let mut s = vec![tl(&tf)];
                    s.extend(ps);
                    Tpl::Dotted(s, r)
                }
                r @ Tpl::Lit(_) => Tpl::Dotted(vec![tl(&tf)], Box::new(r)),
                _ => unreachable!(),
            };
            for p in probes {
                out.push(Prod {
                    cost: 1,
                    kids: vec![(BODY, benv), (p, penv)],
                    tpl: Tpl::List(vec![Tpl::Dotted(vec![tl("define"), sig.clone()], Box::new(Tpl::Hole(0))), Tpl::Hole(1)]),
                    tag: "define-sugar",
                });
                // lambda spelling: any expression of the function type
                out.push(Prod {
                    cost: 1,
                    kids: vec![(ty, env), (p, penv)],
                    tpl: Tpl::List(vec![Tpl::List(vec![tl("define"), tl(&tf), Tpl::Hole(0)]), Tpl::Hole(1)]),
                    tag: "define-lambda",
                });
            }
        }
        {
            let tu = "tu".to_string();
            let penv = self.extend(env, &[(tu.clone(), INT)]);
            for p in probes {
                out.push(Prod {
                    cost: 1,
                    kids: vec![(INT, env), (p, penv)],
                    tpl: Tpl::List(vec![Tpl::List(vec![tl("define"), tl(&tu), Tpl::Hole(0)]), Tpl::Hole(1)]),
                    tag: "define-var",
                });
            }
        }
        {
            // (define tu e1) (define tu e2) probe      -- redefinition; e2 sees the old value
            let tu = "tu".to_string();
            let penv = self.extend(env, &[(tu.clone(), INT)]);
            let d = |h: usize| Tpl::List(vec![tl("define"), tl(&tu), Tpl::Hole(h)]);
            out.push(Prod { cost: 2, kids: vec![(INT, env), (INT, penv), (INT, penv)], tpl: Tpl::List(vec![d(0), d(1), Tpl::Hole(2)]), tag: "redefine-var" });
        }
        // two definitions + probe: tf then tg, tg's body sees tf; and forward: tf's body sees tg
        for forward in [false, true] {
            let (tf, tg) = ("tf".to_string(), "tg".to_string());
            let env_f = self.extend(env, &[(tf.clone(), FUN0 + 1)]);
            let env_g = self.extend(env, &[(tg.clone(), FUN0 + 1)]);
            let env_fg = self.extend(env_f, &[(tg.clone(), FUN0 + 1)]);
            let (e1, e2) = if forward { (env_g, env) } else { (env, env_f) };
            let l1 = self.lambda(e1, 1, false);
            let l2 = self.lambda(e2, 1, false);
            let name_of = |l: &Prod| match &l.tpl {
                Tpl::Dotted(v, _) => match &v[1] {
                    Tpl::List(ps) => ps[0].clone(),
                    _ => unreachable!(),
                },
                _ => unreachable!(),
            };
            let d = |name: &str, l: &Prod, hole: usize| Tpl::Dotted(vec![tl("define"), Tpl::List(vec![tl(name), name_of(l)])], Box::new(Tpl::Hole(hole)));
            out.push(Prod {
                cost: 2,
                kids: vec![l1.kids[0], l2.kids[0], (INT, env_fg)],
                tpl: Tpl::List(vec![d(&tf, &l1, 0), d(&tg, &l2, 1), Tpl::Hole(2)]),
                tag: if forward { "two-defs-forward" } else { "two-defs" },
            });
        }
        out
    }
}

impl Grammar for CoreGrammar {
    fn prods(&mut self, ty: Ty, env: EnvId) -> Vec<Prod> {
        let mut out = vec![];
        match ty {
            INT if self.scope_only => {
                out.push(Self::atom(Sx::Int(0)));
                out.push(Self::atom(Sx::Int(1)));
                out.extend(self.vars(env, INT));
                out.push(Self::form("-", vec![(INT, env), (INT, env)], "builtin"));
                out.push(Self::app(vec![(FUN0, env)], "call0"));
                out.push(Self::app(vec![(FUN0 + 1, env), (INT, env)], "call1"));
            }
            t if self.scope_only && (FUN0..FUN0 + 2).contains(&t) => {
                out.extend(self.vars(env, t));
                out.push(self.lambda(env, (t - FUN0) as usize, false));
            }
            INT => {
                for i in 0..3 {
                    out.push(Self::atom(Sx::Int(i)));
                }
                out.extend(self.vars(env, INT));
                out.push(Self::form("-", vec![(INT, env), (INT, env)], "builtin"));
                out.push(Self::form("car", vec![(LIST, env)], "builtin"));
                out.push(Self::form("if", vec![(TEST, env), (INT, env), (INT, env)], "if"));
                out.push(Self::app(vec![(FUN0, env)], "call0"));
                out.push(Self::app(vec![(FUN0 + 1, env), (INT, env)], "call1"));
                out.push(Self::app(vec![(FUN0 + 2, env), (INT, env), (INT, env)], "call2"));
                out.push(Self::app(vec![(FUNV0, env)], "callv"));
                out.push(Self::app(vec![(FUNV0, env), (INT, env)], "callv"));
                out.push(Self::app(vec![(FUNV0, env), (INT, env), (INT, env)], "callv"));
                out.push(Self::app(vec![(FUNV0 + 1, env), (INT, env)], "callv"));
                out.push(Self::app(vec![(FUNV0 + 1, env), (INT, env), (INT, env)], "callv"));
                for (f, _, _) in Self::fun_sigs() {
                    out.push(Self::form("apply", vec![(f, env), (LIST, env)], "apply"));
                }
                out.push(Self::form("apply", vec![(FUN0 + 2, env), (INT, env), (LIST, env)], "apply-spread"));
                out.push(Self::form("apply", vec![(FUNV0 + 1, env), (INT, env), (LIST, env)], "apply-spread"));
                // two leading arguments before the list: their order matters
                out.push(Self::form("apply", vec![(FUN0 + 2, env), (INT, env), (INT, env), (LIST, env)], "apply-spread2"));
                out.push(Self::form("apply", vec![(FUNV0 + 1, env), (INT, env), (INT, env), (LIST, env)], "apply-spread2"));
                out.push(Self::app(vec![(HO, env), (FUN0 + 1, env)], "higher-order"));
                out.extend(self.tick(INT, env));
            }
            BOOL => {
                out.push(Self::atom(Sx::Bool(true)));
                out.push(Self::atom(Sx::Bool(false)));
                out.push(Self::form("null?", vec![(LIST, env)], "builtin"));
                // null? of something that is not a list at all
                out.push(Self::form("null?", vec![(INT, env)], "builtin"));
                out.push(Self::form("null?", vec![(FUN0, env)], "builtin"));
                out.extend(self.tick(BOOL, env));
            }
            TEST => {
                out.push(Prod { cost: 0, kids: vec![(BOOL, env)], tpl: Tpl::Hole(0), tag: "" });
                out.push(Prod { cost: 1, kids: vec![], tpl: Tpl::Lit(Sx::Int(0)), tag: "truthy-nonbool" });
                out.push(Prod { cost: 1, kids: vec![], tpl: Tpl::Lit(crate::sexp::quote(Sx::List(vec![]))), tag: "truthy-nonbool" });
                out.push(Prod { cost: 1, kids: vec![], tpl: Tpl::Lit(Sx::Str(String::new())), tag: "truthy-nonbool" });
            }
            LIST => {
                out.push(Self::atom(crate::sexp::quote(Sx::List(vec![]))));
                out.push(Self::atom(crate::sexp::quote(Sx::List(vec![Sx::Int(1), Sx::Int(2)]))));
                out.extend(self.vars(env, LIST));
                out.push(Self::form("cons", vec![(INT, env), (LIST, env)], "builtin"));
                out.push(Self::form("cdr", vec![(LIST, env)], "builtin"));
                out.push(Self::form("list", vec![], "builtin"));
                out.push(Self::form("list", vec![(INT, env)], "builtin"));
                out.push(Self::form("list", vec![(INT, env), (INT, env)], "builtin"));
                out.push(Self::form("if", vec![(TEST, env), (LIST, env), (LIST, env)], "if"));
                out.extend(self.tick(LIST, env));
            }
            t if (FUN0..FUN0 + 3).contains(&t) => {
                out.extend(self.vars(env, t));
                out.push(self.lambda(env, (t - FUN0) as usize, false));
                if t == FUN0 + 1 {
                    out.push(Self::app(vec![(MK, env), (INT, env)], "closure-maker-call"));
                }
                out.extend(self.tick(t, env));
            }
            t if (FUNV0..FUNV0 + 2).contains(&t) => {
                out.extend(self.vars(env, t));
                out.push(self.lambda(env, (t - FUNV0) as usize, true));
            }
            HO => {
                out.extend(self.vars(env, HO));
                let n = self.names(env, &["f"]);
                let benv = self.extend(env, &[(n[0].clone(), FUN0 + 1)]);
                out.push(Prod {
                    cost: 1,
                    kids: vec![(INT, benv)],
                    tpl: Tpl::List(vec![tl("lambda"), Tpl::List(vec![tl(&n[0])]), Tpl::Hole(0)]),
                    tag: "lambda-ho",
                });
            }
            MK => {
                out.extend(self.vars(env, MK));
                let n = self.names(env, &["a"]);
                let benv = self.extend(env, &[(n[0].clone(), INT)]);
                out.push(Prod {
                    cost: 1,
                    kids: vec![(FUN0 + 1, benv)],
                    tpl: Tpl::List(vec![tl("lambda"), Tpl::List(vec![tl(&n[0])]), Tpl::Hole(0)]),
                    tag: "lambda-maker",
                });
            }
            BODY => out = self.body_prods(env),
            PROG => out = self.prog_prods(env),
            _ => panic!("unknown type {}", ty),
        }
        out
    }
}


// ---- loop grammar ---------------------------------------------------------------------------
// User-defined recursion on a decreasing counter (`(define (g a b) (if (< a 1) BASE REC))`, and
// the same loop run through a closure maker `(define (mk k) (lambda (a b) ...))` whose tail call
// goes to a *new* closure of the same lambda), accumulators that are integers or lists of thunks
// capturing the loop's variables, inline-lambda (`let`-shaped) scopes that shadow the loop
// variable, `set!` and internal definitions in bodies. Every recursive call passes `(- a 1)`, so
// programs terminate unless `a` is assigned (those are cut by the reference's fuel).
pub const L_INT: Ty = 200;
pub const L_TH: Ty = 201;
pub const L_THL: Ty = 202;
pub const L_BODY: Ty = 203;
pub const L_PROG: Ty = 210;
const REC_INT: Ty = 220;
const REC_THL: Ty = 221;
const MK_INT: Ty = 222;
const MK_THL: Ty = 223;

pub struct LoopGrammar {
    envs: Vec<Vec<(String, Ty)>>,
    ids: HashMap<Vec<(String, Ty)>, EnvId>,
}

impl LoopGrammar {
    pub fn new() -> Self {
        let mut g = LoopGrammar { envs: vec![], ids: HashMap::new() };
        g.intern(vec![]);
        g
    }
    fn intern(&mut self, e: Vec<(String, Ty)>) -> EnvId {
        if let Some(i) = self.ids.get(&e) {
            return *i;
        }
        let id = self.envs.len() as EnvId;
        self.envs.push(e.clone());
        self.ids.insert(e, id);
        id
    }
    fn extend(&mut self, env: EnvId, binds: &[(&str, Ty)]) -> EnvId {
        let mut e = self.envs[env as usize].clone();
        for (n, t) in binds {
            e.retain(|(m, _)| m != n);
            e.push((n.to_string(), *t));
        }
        self.intern(e)
    }
    /// without the recursive callees (inside a scope that rebinds the loop counter `a`)
    fn without_rec(&mut self, env: EnvId) -> EnvId {
        let mut e = self.envs[env as usize].clone();
        e.retain(|(_, t)| *t < REC_INT);
        self.intern(e)
    }
    fn vars(&self, env: EnvId, ty: Ty) -> Vec<Prod> {
        self.envs[env as usize].iter().filter(|(_, t)| *t == ty).map(|(n, _)| Prod { cost: 1, kids: vec![], tpl: tl(n), tag: "var" }).collect()
    }
    fn names_of(&self, env: EnvId, ty: Ty) -> Vec<String> {
        self.envs[env as usize].iter().filter(|(_, t)| *t == ty).map(|(n, _)| n.clone()).collect()
    }
    fn dec_a() -> Tpl {
        Tpl::List(vec![tl("-"), tl("a"), Tpl::Lit(Sx::Int(1))])
    }
    /// productions shared by the two accumulator types: conditional on a variable, inline lambda
    /// scopes, recursive calls
    fn common(&mut self, ty: Ty, env: EnvId) -> Vec<Prod> {
        let mut out = vec![];
        for v in self.names_of(env, L_INT) {
            let test = Tpl::List(vec![tl("<"), tl(&v), Tpl::Lit(Sx::Int(1))]);
            out.push(Prod { cost: 1, kids: vec![(ty, env), (ty, env)], tpl: Tpl::List(vec![tl("if"), test, Tpl::Hole(0), Tpl::Hole(1)]), tag: "loop-if" });
        }
        for p in ["a", "c"] {
            let mut benv = self.extend(env, &[(p, L_INT)]);
            if p == "a" {
                benv = self.without_rec(benv);
            }
            let body_ty = if ty == L_INT { L_BODY } else { ty };
            let lam = if ty == L_INT {
                Tpl::Dotted(vec![tl("lambda"), Tpl::List(vec![tl(p)])], Box::new(Tpl::Hole(0)))
            } else {
                Tpl::List(vec![tl("lambda"), Tpl::List(vec![tl(p)]), Tpl::Hole(0)])
            };
            out.push(Prod { cost: 1, kids: vec![(body_ty, benv), (L_INT, env)], tpl: Tpl::List(vec![lam, Tpl::Hole(1)]), tag: if p == "a" { "inline-lambda-shadowing" } else { "inline-lambda" } });
        }
        let (rec, mk) = if ty == L_INT { (REC_INT, MK_INT) } else { (REC_THL, MK_THL) };
        for g in self.names_of(env, rec) {
            out.push(Prod { cost: 1, kids: vec![(ty, env)], tpl: Tpl::List(vec![tl(&g), Self::dec_a(), Tpl::Hole(0)]), tag: "self-call" });
        }
        for m in self.names_of(env, mk) {
            let fresh = Tpl::List(vec![tl(&m), Tpl::List(vec![tl("-"), tl("k"), Tpl::Lit(Sx::Int(1))])]);
            out.push(Prod { cost: 1, kids: vec![(ty, env)], tpl: Tpl::List(vec![fresh, Self::dec_a(), Tpl::Hole(0)]), tag: "call-through-new-closure" });
        }
        out
    }
    fn prog_prods(&mut self) -> Vec<Prod> {
        let mut out = vec![];
        let guard = |base: usize, rec: usize| Tpl::List(vec![tl("if"), Tpl::List(vec![tl("<"), tl("a"), Tpl::Lit(Sx::Int(1))]), Tpl::Hole(base), Tpl::Hole(rec)]);
        for (ty, rec, mk) in [(L_INT, REC_INT, MK_INT), (L_THL, REC_THL, MK_THL)] {
            let probes: Vec<(Tpl, Tpl)> = (0..4)
                .map(|k| {
                    let init = if ty == L_INT { Sx::Int((k % 2) as i64) } else { crate::sexp::quote(Sx::List(vec![])) };
                    let wrap = |call: Tpl| if ty == L_INT { call } else { Tpl::List(vec![tl("force-all"), call]) };
                    (
                        wrap(Tpl::List(vec![tl("g"), Tpl::Lit(Sx::Int(k)), Tpl::Lit(init.clone())])),
                        wrap(Tpl::List(vec![Tpl::List(vec![tl("mk"), Tpl::Lit(Sx::Int(k + 1))]), Tpl::Lit(Sx::Int(k)), Tpl::Lit(init)])),
                    )
                })
                .collect();
            let env_ab = self.extend(0, &[("a", L_INT), ("b", ty)]);
            let env_abg = self.extend(env_ab, &[("g", rec)]);
            let env_kab = self.extend(0, &[("k", L_INT), ("a", L_INT), ("b", ty)]);
            let env_kabm = self.extend(env_kab, &[("mk", mk)]);
            let env_vab = self.extend(env_ab, &[("v", L_INT)]);
            let env_vabg = self.extend(env_abg, &[("v", L_INT)]);
            for (pg, pm) in probes {
                // direct self recursion
                out.push(Prod {
                    cost: 1,
                    kids: vec![(ty, env_ab), (ty, env_abg)],
                    tpl: Tpl::List(vec![Tpl::List(vec![tl("define"), Tpl::List(vec![tl("g"), tl("a"), tl("b")]), guard(0, 1)]), pg.clone()]),
                    tag: "loop-direct",
                });
                // the same with an internal definition in front of the conditional
                out.push(Prod {
                    cost: 2,
                    kids: vec![(L_INT, env_ab), (ty, env_vab), (ty, env_vabg)],
                    tpl: Tpl::List(vec![
                        Tpl::List(vec![tl("define"), Tpl::List(vec![tl("g"), tl("a"), tl("b")]), Tpl::List(vec![tl("define"), tl("v"), Tpl::Hole(0)]), guard(1, 2)]),
                        pg,
                    ]),
                    tag: "loop-direct-internal-define",
                });
                // through a closure maker: every round runs a new closure of the same lambda
                out.push(Prod {
                    cost: 1,
                    kids: vec![(ty, env_kab), (ty, env_kabm)],
                    tpl: Tpl::List(vec![
                        Tpl::List(vec![tl("define"), Tpl::List(vec![tl("mk"), tl("k")]), Tpl::List(vec![tl("lambda"), Tpl::List(vec![tl("a"), tl("b")]), guard(0, 1)])]),
                        pm,
                    ]),
                    tag: "loop-through-closure-maker",
                });
            }
        }
        out
    }
}

impl Grammar for LoopGrammar {
    fn prods(&mut self, ty: Ty, env: EnvId) -> Vec<Prod> {
        let mut out = vec![];
        match ty {
            L_INT => {
                out.push(CoreGrammar::atom(Sx::Int(0)));
                out.push(CoreGrammar::atom(Sx::Int(1)));
                out.extend(self.vars(env, L_INT));
                out.push(CoreGrammar::form("-", vec![(L_INT, env), (L_INT, env)], "builtin"));
                out.push(CoreGrammar::app(vec![(L_TH, env)], "thunk-call"));
                out.extend(self.common(L_INT, env));
            }
            L_TH => {
                out.extend(self.vars(env, L_TH));
                out.push(Prod { cost: 1, kids: vec![(L_INT, env)], tpl: Tpl::List(vec![tl("lambda"), Tpl::List(vec![]), Tpl::Hole(0)]), tag: "thunk" });
            }
            L_THL => {
                out.push(CoreGrammar::atom(crate::sexp::quote(Sx::List(vec![]))));
                out.extend(self.vars(env, L_THL));
                out.push(CoreGrammar::form("cons", vec![(L_TH, env), (L_THL, env)], "builtin"));
                out.extend(self.common(L_THL, env));
            }
            L_BODY => {
                out.push(Prod { cost: 0, kids: vec![(L_INT, env)], tpl: Tpl::List(vec![Tpl::Hole(0)]), tag: "" });
                for x in self.names_of(env, L_INT) {
                    out.push(Prod { cost: 1, kids: vec![(L_INT, env), (L_INT, env)], tpl: Tpl::List(vec![Tpl::List(vec![tl("set!"), tl(&x), Tpl::Hole(0)]), Tpl::Hole(1)]), tag: "body-set!" });
                }
                let env_v = self.extend(env, &[("v", L_INT)]);
                // the initialiser must not mention the v this body defines (R7RS: an error)
                let mut e = self.envs[env as usize].clone();
                e.retain(|(m, _)| m != "v");
                let env_no_v = self.intern(e);
                out.push(Prod { cost: 1, kids: vec![(L_INT, env_no_v), (L_INT, env_v)], tpl: Tpl::List(vec![Tpl::List(vec![tl("define"), tl("v"), Tpl::Hole(0)]), Tpl::Hole(1)]), tag: "internal-var" });
            }
            L_PROG => out = self.prog_prods(),
            _ => panic!("unknown loop type {}", ty),
        }
        out
    }
}

/// flatten `(a b . (c d))` produced by dotted templates whose tail is a list of forms
pub fn normalise(x: Sx) -> Sx {
    match x {
        Sx::List(v) => Sx::List(v.into_iter().map(normalise).collect()),
        Sx::Dotted(v, t) => {
            let mut v: Vec<Sx> = v.into_iter().map(normalise).collect();
            match normalise(*t) {
                Sx::List(t) => {
                    v.extend(t);
                    Sx::List(v)
                }
                t => Sx::Dotted(v, Box::new(t)),
            }
        }
        o => o,
    }
}

pub struct Space {
    /// (table, root environment, name, root type)
    pub tables: Vec<(Table, EnvId, &'static str, Ty)>,
    /// (table index, nodes, count) in enumeration order
    pub blocks: Vec<(usize, u32, u64)>,
    pub total: u64,
}

impl Space {
    pub fn new(max_nodes: u32, scope_nodes: u32, loop_nodes: u32) -> Space {
        let mut tables = vec![];
        let mut blocks = vec![];
        let mut total = 0;
        {
            let mut g = CoreGrammar::new(true, false);
            g.scope_only = true;
            let mut c = Counter::new(g);
            for n in 1..=scope_nodes {
                let k = c.count(PROG, 0, n);
                if k > 0 {
                    blocks.push((0usize, n, k));
                    total += k;
                }
            }
            tables.push((c.freeze(), 0, "scoping-grammar", PROG));
        }
        {
            let mut c = Counter::new(LoopGrammar::new());
            let ti = tables.len();
            for n in 1..=loop_nodes {
                let k = c.count(L_PROG, 0, n);
                if k > 0 {
                    blocks.push((ti, n, k));
                    total += k;
                }
            }
            tables.push((c.freeze(), 0, "loop-grammar", L_PROG));
        }
        for (shadow, name) in [(false, "fresh-names"), (true, "shadowing-names")] {
            let mut g = CoreGrammar::new(shadow, true);
            // the prelude's procedures are visible everywhere
            let top = g.extend(0, &[("down".into(), FUN0 + 1), ("loop".into(), FUN0 + 2), ("par".into(), FUN0 + 1)]);
            let mut c = Counter::new(g);
            let ti = tables.len();
            for n in 1..=max_nodes {
                let k = c.count(PROG, top, n);
                if k > 0 {
                    blocks.push((ti, n, k));
                    total += k;
                }
            }
            tables.push((c.freeze(), top, name, PROG));
        }
        // simplest first across both disciplines
        blocks.sort_by_key(|b| (b.1, b.0));
        Space { tables, blocks, total }
    }
    /// the program with global index i: (forms, nodes, tags, discipline)
    pub fn program(&self, mut i: u64) -> (Vec<Sx>, u32, Vec<&'static str>, &'static str) {
        for (ti, n, k) in &self.blocks {
            if i < *k {
                let (t, top, name, root) = &self.tables[*ti];
                let mut tags = vec![];
                let p = normalise(t.unrank(*root, *top, *n, i, &mut tags));
                let mut forms = match p {
                    Sx::List(v) => v,
                    _ => unreachable!(),
                };
                let mut next = 1;
                for f in forms.iter_mut() {
                    number_ticks(f, &mut next);
                }
                return (forms, *n, tags, name);
            }
            i -= *k;
        }
        panic!("program index out of range");
    }
}

pub struct Worker {
    pub it: Interp,
    prelude: Vec<Sx>,
}

pub fn new_worker() -> Worker {
    let mut it = Interp::must_new();
    for f in parse_all(PRELUDE) {
        let o = it.eval(&f.to_string());
        if !matches!(o, Outcome::Val(_)) {
            crate::drive::impl_fail(&format!("the prelude definition {} => {}", f, o));
        }
    }
    // prelude definitions live in the base frame
    Worker { it, prelude: parse_all(PRELUDE) }
}

pub struct CaseResult {
    pub ok: bool,
    pub expected: String,
    pub observed: String,
    pub excluded: Option<&'static str>,
    pub outcome_hash: u64,
    pub class: String,
}

/// run one program on the (pooled) implementation and on the reference under `policy`
pub fn judge_program(w: &mut Worker, forms: &[Sx], policy: Policy, fresh: bool) -> CaseResult {
    let mut m = Machine::new(policy);
    for f in &w.prelude {
        m.eval_top(f).expect("reference prelude");
    }
    m.fuel = 200_000;
    let mut fresh_it;
    let it: &mut Interp = if fresh {
        fresh_it = new_worker().it;
        &mut fresh_it
    } else {
        w.it.fresh_frame();
        &mut w.it
    };
    let mut exp = vec![];
    let mut obs = vec![];
    let mut ok = true;
    let mut excluded = None;
    let mut class = String::new();
    for f in forms {
        m.trace.clear();
        let r = m.eval_top(f);
        if matches!(&r, Err(crate::drive::ErrKind::Other(s)) if s == "reference-fuel-exhausted") {
            excluded = Some("reference fuel exhausted (non-terminating program)");
            break;
        }
        let (o, trace) = it.eval_traced(&f.to_string());
        let good = outcome_matches(&r, &o) && trace == m.trace;
        exp.push(format!("{} trace={:?}", show_result(&r), m.trace));
        obs.push(format!("{} trace={:?}", o, trace));
        class = o.class();
        if !good {
            ok = false;
            break;
        }
        if r.is_err() {
            break; // a program stops at its first failing form
        }
    }
    CaseResult { ok, expected: exp.join(" ; "), observed: obs.join(" ; "), excluded, outcome_hash: hash_of(&obs), class }
}

pub fn program_text(forms: &[Sx]) -> String {
    forms.iter().map(|f| f.to_string()).collect::<Vec<_>>().join("\n")
}

fn sweep(sp: &Space, policy: Policy, fresh_upto: u64) -> Acc {
    sweep_range(sp, policy, fresh_upto, 0, sp.total)
}

/// the programs with global index in [lo, hi)
fn sweep_range(sp: &Space, policy: Policy, fresh_upto: u64, lo: u64, hi: u64) -> Acc {
    let total = sp.total;
    par::sweep(
        hi - lo,
        2048,
        |_| new_worker(),
        |w, acc, k| {
            let i = k + lo;
            let (forms, nodes, tags, disc) = sp.program(i);
            let r = judge_program(w, &forms, policy, false);
            acc.evals += 1;
            acc.count(&format!("nodes={}", nodes), 1);
            for t in &tags {
                acc.count(&format!("tag:{}", t), 1);
            }
            acc.outcome_class(&r.class);
            acc.distinct_hash(r.outcome_hash);
            if i % (total / 6 + 1) == 0 {
                acc.sample(i, json!({"program": program_text(&forms), "nodes": nodes, "naming": disc, "observed": r.observed}));
            }
            if let Some(why) = r.excluded {
                acc.exclude(why, || program_text(&forms));
                return;
            }
            let report = |acc: &mut Acc, r: &CaseResult, note: &str| {
                acc.mismatch(
                    Mismatch {
                        idx: i,
                        case: program_text(&forms),
                        expected: format!("{}{}", note, r.expected),
                        observed: r.observed.clone(),
                        payload: json!({"forms": forms.iter().map(|f| f.to_string()).collect::<Vec<_>>(), "policy": [policy.left_to_right, policy.operator_first]}),
                    },
                    None,
                )
            };
            if !r.ok {
                report(acc, &r, "");
            } else if i < fresh_upto {
                // differential: the same program from the initial state of a new interpreter
                let r2 = judge_program(w, &forms, policy, true);
                acc.count("fresh-mode-reruns", 1);
                if !r2.ok || r2.observed != r.observed {
                    report(acc, &r2, "[fresh interpreter differs from pooled frame] ");
                }
            }
        },
    )
}

/// The arity matrix: every parameter list of 0-5 fixed parameters with and without a rest
/// parameter x every argument count from 0 to two more than fits x every body that returns one
/// parameter / the rest list / all of them x every spelling of definition and call (inline lambda,
/// define sugar, define + lambda, apply with a list, apply with 1-3 leading arguments, through a
/// procedure parameter). Arguments are ticks: each is evaluated exactly once, in one global order.
pub fn arity_programs() -> Vec<(Vec<Sx>, String)> {
    let mut out = vec![];
    for k in 0..=5usize {
        for rest in [false, true] {
            let ps: Vec<String> = (1..=k).map(|i| format!("p{}", i)).collect();
            let params = match (k, rest) {
                (0, true) => "r".to_string(),
                (_, true) => format!("({} . r)", ps.join(" ")),
                (_, false) => format!("({})", ps.join(" ")),
            };
            let sugar = match (k, rest) {
                (0, true) => "(f . r)".to_string(),
                (_, true) => format!("(f {} . r)", ps.join(" ")),
                (_, false) => format!("(f{}{})", if k > 0 { " " } else { "" }, ps.join(" ")),
            };
            let mut bodies: Vec<String> = ps.clone();
            if rest {
                bodies.push("r".into());
            }
            bodies.push(format!("(list {}{})", ps.join(" "), if rest { " r" } else { "" }));
            for nargs in 0..=(k + 2).min(7) {
                let args: Vec<String> = (1..=nargs).map(|i| format!("(tick {} {})", i, 10 + i)).collect();
                for body in &bodies {
                    let tag = format!("params={} rest={} args={}", k, rest, nargs);
                    let lam = format!("(lambda {} {})", params, body);
                    let call = |f: &str| format!("({}{}{})", f, if nargs > 0 { " " } else { "" }, args.join(" "));
                    let mut progs: Vec<Vec<String>> = vec![
                        vec![call(&lam)],
                        vec![format!("(define {} {})", sugar, body), call("f")],
                        vec![format!("(define f {})", lam), call("f")],
                        vec![format!("(define f {})", lam), format!("(apply f (list {}))", args.join(" "))],
                        vec![format!("(define f {})", lam), format!("((lambda (g) {}) f)", call("g"))],
                        vec![format!("(define f {})", lam), format!("(apply {} (list {}))", lam, args.join(" "))],
                    ];
                    for lead in 1..=nargs.min(3) {
                        progs.push(vec![format!("(define {} {})", sugar, body), format!("(apply f {} (list {}))", args[..lead].join(" "), args[lead..].join(" "))]);
                    }
                    for p in progs {
                        out.push((p.iter().map(|t| crate::sexp::parse1(t)).collect(), tag.clone()));
                    }
                }
            }
        }
    }
    out
}

/// Scale ladders: the same constructs at every size N = 1..=max - argument lists, parameter lists,
/// rest lists, internal and top-level definitions, body length, nesting depth of procedures /
/// conditionals / operands, rounds of a tail loop and of a non-tail recursion, number of calls of one
/// procedure in one program. A fast path for small sizes, a capacity or a narrow counter shows here.
pub fn scale_programs(max: usize) -> Vec<(Vec<Sx>, String)> {
    let mut out: Vec<(Vec<String>, String)> = vec![];
    let ints = |lo: usize, hi: usize| (lo..=hi).map(|i| i.to_string()).collect::<Vec<_>>().join(" ");
    let ticks = |lo: usize, hi: usize| (lo..=hi).map(|i| format!("(tick {} {})", i, 1000 + i)).collect::<Vec<_>>().join(" ");
    for n in 1..=max {
        let mid = (n + 1) / 2;
        let ps: Vec<String> = (1..=n).map(|i| format!("p{}", i)).collect();
        out.push((vec!["(define (f . r) r)".into(), format!("(f {})", ints(1, n)), format!("(f {})", ticks(1, n))], format!("scale rest-list n={}", n)));
        out.push((vec!["(define (f a . r) (cons a r))".into(), format!("(f {})", ticks(1, n))], format!("scale first+rest n={}", n)));
        out.push((vec!["(define (f . r) r)".into(), format!("(apply f (list {}))", ints(1, n)), format!("(apply f 1 2 (list {}))", ints(3, n.max(2))), format!("(apply f '({}))", ints(1, n))], format!("scale apply n={}", n)));
        out.push((
            vec![format!("(define (f {}) (list p{} p1 p{}))", ps.join(" "), n, mid), format!("(f {})", ticks(1, n)), format!("(apply f (list {}))", ints(1, n)), format!("((lambda ({} . r) (list p{} r)) {} 7 8)", ps.join(" "), n, ints(1, n))],
            format!("scale fixed-parameters n={}", n),
        ));
        let mut defs = vec!["(define d1 1)".to_string()];
        for i in 2..=n {
            defs.push(format!("(define d{} (- d{} -1))", i, i - 1));
        }
        out.push((vec![format!("(define (f) {} (list d1 d{} d{}))", defs.join(" "), mid, n), "(f)".into(), format!("((lambda (d{}) {} (list d1 d{})) 5)", n + 1, defs.join(" "), n)], format!("scale internal-definitions n={}", n)));
        let mut fwd = vec![];
        for i in 1..=n {
            fwd.push(format!("(define (h{}) {})", i, if i < n { format!("(h{})", i + 1) } else { "42".to_string() }));
        }
        out.push((vec![format!("(define (f) {} (h1))", fwd.join(" ")), "(f)".into()], format!("scale forward-references n={}", n)));
        let mut tops: Vec<String> = (1..=n).map(|i| format!("(define t{} {})", i, i * 3)).collect();
        tops.push(format!("(list t1 t{} t{})", mid, n));
        tops.push(format!("((lambda (t{}) (list t1 t{})) 0)", mid, mid));
        out.push((tops, format!("scale top-level-definitions n={}", n)));
        out.push((vec![format!("(define (f) {} 'last)", ticks(1, n)), "(f)".into(), format!("((lambda () {}))", ticks(1, n))], format!("scale body-length n={}", n)));
        out.push((vec![format!("(list {})", ticks(1, n)), format!("'({})", ints(1, n)), format!("(car (cdr '(0 {})))", ints(1, n))], format!("scale list-literal n={}", n)));
        out.push((
            vec!["(define (f x) (- x 1))".into(), format!("(list {})", (1..=n).map(|i| format!("(f {})", i)).collect::<Vec<_>>().join(" ")), format!("(f {})", n)],
            format!("scale calls-of-one-procedure n={}", n),
        ));
        out.push((vec!["(define (g a b) (if (< a 1) b (g (- a 1) (- b -2))))".into(), format!("(g {} 0)", n), "(define (h a) (if (< a 1) 0 (- (h (- a 1)) -1)))".into(), format!("(h {})", n)], format!("scale rounds n={}", n)));
        out.push((
            vec!["(define (mk k) (lambda () k))".into(), format!("(define ts (list {}))", (1..=n).map(|i| format!("(mk {})", i)).collect::<Vec<_>>().join(" ")), "(force-all ts)".into()],
            format!("scale closures-alive n={}", n),
        ));
        if n <= 100 {
            let mut e = format!("(list x1 x{} x{})", mid, n);
            for i in (1..=n).rev() {
                e = format!("((lambda (x{}) {}) {})", i, e, i * 2);
            }
            let mut c = "'deep".to_string();
            for i in 0..n {
                c = if i % 2 == 0 { format!("(if #t {} 'no)", c) } else { format!("(if #f 'no {})", c) };
            }
            let mut o = "0".to_string();
            for _ in 0..n {
                o = format!("(- {} -1)", o);
            }
            let mut cl = "(lambda () 7)".to_string();
            for _ in 0..n {
                cl = format!("(lambda () {})", cl);
            }
            let mut calls = "f".to_string();
            for _ in 0..=n {
                calls = format!("({})", calls);
            }
            out.push((vec![e, c, o, format!("(define f {})", cl), calls], format!("scale nesting-depth n={}", n)));
        }
    }
    // a captured variable assigned a value that looks like the one it holds (other exactness, other
    // sign of zero, a sibling closure, an equal list): every later lookup sees the new one
    let cell = "(define (make-cell v) (lambda (new) (set! v new) v))";
    for (init, news) in [("1", vec!["1.0", "1", "-1"]), ("0.0", vec!["-0.0", "0", "0.0"]), ("1/2", vec!["0.5", "2/4"]), ("'(1 2)", vec!["(list 1 2)", "'(1 2.0)"]), ("(lambda () 1)", vec!["(lambda () 1)"])] {
        let mut forms = vec![cell.to_string(), format!("(define c (make-cell {}))", init)];
        for n in &news {
            forms.push(if init.starts_with("(lambda") { format!("((c {}))", n) } else { format!("(c {})", n) });
        }
        out.push((forms, format!("scale look-alike-assignment init={}", init)));
    }
    out.push((
        vec!["(define (adder k) (lambda (x) (- x (- 0 k))))".into(), "(define (holder f) (lambda (g x) (set! f g) (f x)))".into(), "(define h (holder (adder 1)))".into(), "(h (adder 1) 10)".into(), "(h (adder 2) 10)".into(), "(h (adder 1) 10)".into()],
        "scale look-alike-assignment sibling-closures".into(),
    ));
    out.into_iter().map(|(p, tag)| (p.iter().map(|t| crate::sexp::parse1(t)).collect(), tag)).collect()
}

fn arity_matrix(policy: Policy, scale: usize) -> Acc {
    let mut progs = arity_programs();
    progs.extend(scale_programs(scale));
    let pr = &progs;
    par::sweep(
        progs.len() as u64,
        64,
        |_| new_worker(),
        |w, acc, i| {
            let (forms, tag) = &pr[i as usize];
            let r = judge_program(w, forms, policy, false);
            acc.evals += 1;
            if tag.starts_with("scale ") {
                acc.count(&format!("scale ladder: {}", tag.split(' ').nth(1).unwrap_or("")), 1);
            } else {
                acc.count("arity-matrix", 1);
                acc.count(&format!("arity-matrix {}", tag.split(' ').next().unwrap_or("")), 1);
            }
            acc.outcome_class(&r.class);
            acc.distinct_hash(r.outcome_hash);
            if !r.ok {
                acc.mismatch(
                    Mismatch {
                        idx: 8_000_000_000 + i,
                        case: format!("[{}]\n{}", tag, program_text(forms)),
                        expected: r.expected.clone(),
                        observed: r.observed.clone(),
                        payload: json!({"forms": forms.iter().map(|f| f.to_string()).collect::<Vec<_>>(), "policy": [policy.left_to_right, policy.operator_first]}),
                    },
                    None,
                );
            }
        },
    )
}

fn segment() -> u64 {
    std::env::var("C01_SEGMENT").ok().and_then(|s| s.parse().ok()).unwrap_or(30_000_000)
}

fn sweep_segmented(ctx: &Ctx, sp: &Space, policy_index: usize, max_nodes: u32, scope_nodes: u32, loop_nodes: u32, fresh_upto: u64) -> Result<Acc, String> {
    let exe = crate::supervise::frozen_exe();
    let dir = std::path::PathBuf::from(format!("/verif/target/scratch/c01-{}", std::process::id()));
    std::fs::create_dir_all(&dir).map_err(|e| e.to_string())?;
    let mut acc = Acc::new();
    let mut lo = 0u64;
    let mut seg = 0;
    while lo < sp.total {
        let hi = (lo + segment()).min(sp.total);
        let out = dir.join(format!("segment-{}.json", seg));
        let st = std::process::Command::new(&exe)
            .args(["worker", "C01", &ctx.tier_name()])
            .args([lo, hi, policy_index as u64, max_nodes as u64, scope_nodes as u64, loop_nodes as u64, fresh_upto].iter().map(|x| x.to_string()))
            .arg(&out)
            .status()
            .map_err(|e| format!("spawning segment process: {}", e))?;
        if !st.success() {
            return Err(format!("segment process for programs {}..{} ended with {:?}", lo, hi, st.code()));
        }
        let text = std::fs::read_to_string(&out).map_err(|e| format!("segment result {}: {}", out.display(), e))?;
        let j: serde_json::Value = serde_json::from_str(&text).map_err(|e| e.to_string())?;
        let part = Acc::from_json(&j).ok_or("segment result does not parse")?;
        if part.evals != hi - lo {
            return Err(format!("segment {}..{} reports {} evaluations", lo, hi, part.evals));
        }
        acc.merge(part);
        let _ = std::fs::remove_file(&out);
        lo = hi;
        seg += 1;
    }
    let _ = std::fs::remove_dir_all(&dir);
    acc.notes.push(format!("swept in {} consecutive segment processes of <= {} programs", seg, segment()));
    Ok(acc)
}

/// segment process entry: `mc worker C01 <tier> <lo> <hi> <policy> <max_nodes> <scope_nodes> <loop_nodes> <fresh_upto> <outfile>`
pub fn worker(args: &[String]) {
    let n = |k: usize| -> u64 { args[k].parse().expect("numeric argument") };
    let (lo, hi, pi) = (n(2), n(3), n(4) as usize);
    let sp = Space::new(n(5) as u32, n(6) as u32, n(7) as u32);
    let acc = sweep_range(&sp, POLICIES[pi], n(8), lo, hi);
    std::fs::write(&args[9], acc.to_json().to_string()).expect("writing the segment result");
}

pub fn run(ctx: &Ctx) -> i32 {
    let max_nodes: u32 = std::env::var("C01_NODES").ok().and_then(|s| s.parse().ok()).unwrap_or(if ctx.thorough() { 9 } else { 7 });
    let scope_nodes: u32 = std::env::var("C01_SCOPE_NODES").ok().and_then(|s| s.parse().ok()).unwrap_or(if ctx.thorough() { 13 } else { 11 });
    let loop_nodes: u32 = std::env::var("C01_LOOP_NODES").ok().and_then(|s| s.parse().ok()).unwrap_or(if ctx.thorough() { 9 } else { 7 });
    let sp = Space::new(max_nodes, scope_nodes, loop_nodes);
    // programs (simplest first) that are additionally re-run on a fresh interpreter
    let fresh_upto: u64 = std::env::var("C01_FRESH").ok().and_then(|s| s.parse().ok()).unwrap_or(if ctx.thorough() { 20_000 } else { 2_000 });
    let mut best: Option<(Acc, Policy)> = None;
    // the interpreter leaks the frame <-> closure cycles of the programs it runs (a few hundred
    // bytes per program): above SEGMENT programs the space is swept in consecutive child processes
    let segmented = sp.total > segment();
    for (pi, policy) in POLICIES.into_iter().enumerate() {
        let acc = if segmented {
            match sweep_segmented(ctx, &sp, pi, max_nodes, scope_nodes, loop_nodes, fresh_upto) {
                Ok(a) => a,
                Err(e) => {
                    eprintln!("MACHINERY-ERROR: {}", e);
                    return 2;
                }
            }
        } else {
            sweep(&sp, policy, fresh_upto)
        };
        let nv = acc.n_violations;
        let better = best.as_ref().map(|(b, _)| nv < b.n_violations).unwrap_or(true);
        if better {
            best = Some((acc, policy));
        }
        if nv == 0 {
            break;
        }
    }
    let (mut acc, policy) = best.unwrap();
    let scale = if ctx.thorough() { 600 } else { 300 };
    acc.merge(arity_matrix(policy, scale));
    acc.notes.push(format!("operand-order policy that explains every case: left_to_right={} operator_first={}", policy.left_to_right, policy.operator_first));
    let blocks: Vec<_> = sp.blocks.iter().map(|(t, n, k)| json!({"naming": sp.tables[*t].2, "nodes": n, "programs": k})).collect();
    report::finish(
        acc,
        RunInfo {
            id: "C01".into(),
            tier: ctx.tier_name(),
            seed: ctx.seed,
            exhaustive: true,
            rule: "every program of the typed core grammar (literals, variables, -, car/cdr/cons/list/null?, if with boolean and non-boolean tests, lambda with fixed/rest parameters, bodies with internal definitions incl. forward references, applications, apply with and without spread arguments, higher-order and closure-making procedures, top-level definitions in both spellings, tick at every position) with at most N nodes, under two naming disciplines (fresh names / role names that shadow); plus the arity matrix: 0-5 fixed parameters with / without a rest parameter x 0..k+2 arguments (ticks) x bodies returning each parameter / the rest list / all x 6-9 spellings of definition and call; plus scale ladders: argument / parameter / rest lists, internal, forward-referring and top-level definitions, body length, list literals, calls of one procedure, loop rounds, live closures at every size N <= 300 (thorough 600), nesting depth of procedures / conditionals / operands / thunks at every N <= 100; distinct = distinct per-form observation vectors".into(),
            bounds: json!({"max_nodes": max_nodes, "scoping_grammar_max_nodes": scope_nodes, "loop_grammar_max_nodes": loop_nodes, "blocks": blocks, "fresh_mode_reruns_upto_index": fresh_upto, "scale_ladder_max_n": scale}),
            assumptions: vec![
                "reference evaluator refsem (self-tested on R7RS 4.1/4.2 examples)".into(),
                "operand evaluation order: one of four global policies must explain all cases".into(),
            ],
            wall_s: ctx.elapsed(),
            extra: json!({"prelude": PRELUDE}),
        },
    )
}

pub fn replay(p: &serde_json::Value) -> bool {
    let forms: Vec<Sx> = p["forms"].as_array().unwrap().iter().map(|f| crate::sexp::parse1(f.as_str().unwrap())).collect();
    let pol = Policy { left_to_right: p["policy"][0].as_bool().unwrap_or(true), operator_first: p["policy"][1].as_bool().unwrap_or(true) };
    let mut w = new_worker();
    let r = judge_program(&mut w, &forms, pol, true);
    println!("program:\n{}\nexpected: {}\nobserved: {}", program_text(&forms), r.expected, r.observed);
    !r.ok
}

//! C06 — the reader maps text to the data its tokens denote.
//! E-sweep over (1) all strings up to a length over a 19-character alphabet, at lexer level and at
//! reader level ('TEXT through eval); (2) all ordered pairs of token representatives x separators x
//! contexts; (3) all datum trees up to a node count under every layout plan. Judged by reflex.
use crate::drive::{guarded, panic_class, Interp, Outcome};
use crate::reflex::{self, read_all, Lexed, Mode, ReadError, Tok};
use crate::refsem::{rmatch, Machine, POLICIES};
use crate::report::{self, hash_of, Acc, Mismatch, RunInfo};
use crate::sexp::Sx;
use crate::{par, Ctx};
use ruschm::parser::{Lexer, Primitive, TokenData};
use serde_json::json;

pub const ALPHABET: &[char] = &['(', ')', '\'', '"', ';', '|', '#', '\\', '.', '+', '-', '0', '1', '/', 'e', 'a', 't', ' ', '\n'];

#[derive(Debug, PartialEq, Clone)]
pub enum ImplLex {
    Tokens(Vec<Tok>),
    /// a token class the reference does not model (quasiquote, bytevector) was produced
    Other,
    Error,
    Panic(String),
}

pub fn impl_tokens(text: &str) -> ImplLex {
    let r = guarded(|| Lexer::from_char_stream(text.chars()).collect::<Result<Vec<_>, _>>());
    match r {
        Err(p) => ImplLex::Panic(p),
        Ok(Err(_)) => ImplLex::Error,
        Ok(Ok(toks)) => {
            let mut out = vec![];
            for t in toks {
                out.push(match t.data {
                    TokenData::Identifier(s) => Tok::Ident(s),
                    TokenData::LeftParen => Tok::LParen,
                    TokenData::RightParen => Tok::RParen,
                    TokenData::VecConsIntro => Tok::VecOpen,
                    TokenData::Quote => Tok::Quote,
                    TokenData::Period => Tok::Dot,
                    TokenData::Primitive(Primitive::Boolean(b)) => Tok::Bool(b),
                    TokenData::Primitive(Primitive::Character(c)) => Tok::Char(c),
                    TokenData::Primitive(Primitive::String(s)) => Tok::Str(s),
                    TokenData::Primitive(Primitive::Integer(i)) => Tok::Int(i as i128),
                    TokenData::Primitive(Primitive::Rational(a, b)) => Tok::Ratio(a as i128, b as i128),
                    TokenData::Primitive(Primitive::Real(s)) => match s.parse::<f64>() {
                        Ok(v) => Tok::Real(v),
                        // the lexer produced a "real" whose text is not a number
                        Err(_) => Tok::Ident(format!("<<malformed real {}>>", s)),
                    },
                    _ => return ImplLex::Other,
                });
            }
            ImplLex::Tokens(out)
        }
    }
}

pub enum Verdict {
    Ok(u64),
    Excluded(&'static str),
    Bad(String, String, Option<&'static str>),
}

fn toks_eq(a: &[Tok], b: &[Tok]) -> bool {
    a.len() == b.len()
        && a.iter().zip(b).all(|(x, y)| match (x, y) {
            (Tok::Real(p), Tok::Real(q)) => p == q || (p.is_nan() && q.is_nan()),
            (p, q) => p == q,
        })
}

pub fn judge_lex(text: &str) -> Verdict {
    let want = reflex::tokenize(text, Mode::default());
    let got = impl_tokens(text);
    match (&want, &got) {
        (Lexed::Unsupported(w), _) => Verdict::Excluded(w),
        (_, ImplLex::Panic(p)) => {
            if matches!(want, Lexed::Malformed(_)) || matches!(panic_class(p).as_str(), "unwrap-ParseIntError") {
                Verdict::Excluded("panic while lexing a malformed or out-of-range literal (judged by C07)")
            } else {
                Verdict::Bad(format!("{:?}", want), format!("PANIC {}", p), None)
            }
        }
        (Lexed::Tokens(w), ImplLex::Tokens(g)) if toks_eq(w, g) => Verdict::Ok(hash_of(&format!("{:?}", g))),
        (Lexed::Malformed(_), ImplLex::Error) => Verdict::Ok(0),
        (_, g) => {
            // defect model: booleans and characters are not delimiter-terminated
            let lenient = reflex::tokenize(text, Mode { bool_char_undelimited: true });
            if let Lexed::Unsupported(w) = &lenient {
                // past the undelimited boolean/character the text uses unsupported lexical syntax
                return Verdict::Excluded(w);
            }
            let known = match (&lenient, g) {
                (Lexed::Tokens(l), ImplLex::Tokens(gt)) if toks_eq(l, gt) && (text.contains("#t") || text.contains("#f") || text.contains("#\\")) => Some("bool-char-not-delimiter-terminated"),
                (Lexed::Malformed(_), ImplLex::Error) if text.contains("#t") || text.contains("#f") || text.contains("#\\") => Some("bool-char-not-delimiter-terminated"),
                _ => None,
            };
            Verdict::Bad(format!("{:?}", want), format!("{:?}", g), known)
        }
    }
}

/// reader level: the value of 'TEXT
pub fn judge_read(it: &mut Interp, text: &str) -> Verdict {
    let o = it.eval(&format!("'{}", text));
    judge_read_outcome(text, o)
}

/// the same text read from a FILE (`'TEXT` as the whole program): the file reader ends every line
/// with LF (CRLF becomes LF, a missing final newline is supplied) and must change nothing else
pub fn judge_read_file(it: &mut Interp, text: &str, scratch: &std::path::Path) -> Verdict {
    let mut normal = text.replace("\r\n", "\n");
    if !normal.ends_with('\n') {
        normal.push('\n');
    }
    if std::fs::write(scratch, format!("'{}", text)).is_err() {
        return Verdict::Excluded("scratch file not writable");
    }
    let interp = &mut it.it;
    let p = scratch.to_path_buf();
    let o = match guarded(|| interp.eval_file(p)) {
        Ok(Ok(Some(v))) => Outcome::Val(crate::drive::obs_of(&v)),
        Ok(Ok(None)) => Outcome::Val(crate::drive::Obs::NoValue),
        Ok(Err(e)) => Outcome::Err(crate::drive::classify(&e), e.location),
        Err(p) => Outcome::Panic(p),
    };
    judge_read_outcome(&normal, o)
}

/// an exact number inside the value that is not an integer or a ratio in lowest terms with a
/// denominator >= 2
fn non_canonical(o: &crate::drive::Obs) -> Option<String> {
    use crate::drive::Obs;
    fn gcd(a: i64, b: i64) -> i64 {
        if b == 0 {
            a.abs()
        } else {
            gcd(b, a % b)
        }
    }
    match o {
        Obs::Rat(a, b) if *b < 2 || gcd(*a as i64, *b as i64) != 1 => Some(format!("{}/{}", a, b)),
        Obs::Pair(x, y) => non_canonical(x).or_else(|| non_canonical(y)),
        Obs::Vector(_, v) => v.iter().find_map(non_canonical),
        _ => None,
    }
}

fn judge_read_outcome(text: &str, o: Outcome) -> Verdict {
    let want = reflex::tokenize(text, Mode::default());
    let toks = match &want {
        Lexed::Unsupported(w) => return Verdict::Excluded(w),
        Lexed::Malformed(_) => None,
        Lexed::Tokens(t) => Some(t),
    };
    let expected: Result<Sx, &'static str> = match toks {
        None => Err("malformed token"),
        Some(t) => match read_all(t) {
            Ok(v) if v.len() == 1 => Ok(v.into_iter().next().unwrap()),
            Ok(v) if v.is_empty() => Err("no datum after the quote"),
            Ok(_) => return Verdict::Excluded("more than one datum (the rest is evaluated as code)"),
            Err(ReadError::OutOfRange) => return Verdict::Excluded("exact literal outside i32"),
            Err(ReadError::Incomplete) => Err("incomplete datum"),
            Err(ReadError::Unexpected(w)) => Err(w),
        },
    };
    match (&expected, &o) {
        (Ok(d), Outcome::Val(ob)) => {
            let mut m = Machine::new(POLICIES[0]);
            let rv = m.datum(d);
            if let Some(bad) = non_canonical(ob) {
                // the datum of an exact literal is the number, in its one representation: 6/4 is
                // 3/2 and 4/2 is 2 (eqv?, vector-ref and display tell the difference)
                return Verdict::Bad(format!("{}", d), format!("{} holds the exact number {} in a non-canonical form", o, bad), None);
            }
            if rmatch(&rv, ob) {
                Verdict::Ok(hash_of(ob))
            } else {
                Verdict::Bad(format!("{}", d), format!("{}", o), None)
            }
        }
        (Err(_), Outcome::Err(..)) => Verdict::Ok(0),
        (Err(_), Outcome::Panic(_)) => Verdict::Excluded("panic on a malformed text (judged by C07)"),
        (Ok(d), o) => {
            let lenient = text.contains("#t") || text.contains("#f") || text.contains("#\\");
            Verdict::Bad(format!("{}", d), format!("{}", o), if lenient { Some("bool-char-not-delimiter-terminated") } else { None })
        }
        (Err(w), o) => {
            let lenient = text.contains("#t") || text.contains("#f") || text.contains("#\\");
            Verdict::Bad(format!("rejected: {}", w), format!("{}", o), if lenient { Some("bool-char-not-delimiter-terminated") } else { None })
        }
    }
}

pub fn nth_string(mut i: u64, len: usize) -> String {
    let k = ALPHABET.len() as u64;
    let mut s = Vec::with_capacity(len);
    for _ in 0..len {
        s.push(ALPHABET[(i % k) as usize]);
        i /= k;
    }
    s.iter().rev().collect()
}

pub const TOKEN_REPS: &[&str] = &[
    "+", "-", "...", "->x", "+a", ".a", "a.b", "a", "x1", "|a b|", "#t", "#f", "#\\a", "#\\(", "#\\ ", "\"s\"", "\"\\\"\"", "\"a b\"", "12", "-12", "+5", "1/2", "-3/4", "6/4", "4/2", "0/7", "1.5", "1.", "+.5", "-.5e1", "1e2",
    "1.5e-3", "(", ")", "#(", "'", ".", "0", "a1", "<=?", "e", "t",
];
pub const SEPARATORS: &[&str] = &["", " ", "\t", "\r", "\n", "\r\n", ";c\n", "  ", " ;; x\n "];

/// (2) pair texts: token1 SEP token2 in five contexts
pub fn pair_texts() -> Vec<String> {
    let mut out = vec![];
    for a in TOKEN_REPS {
        for b in TOKEN_REPS {
            for s in SEPARATORS {
                let core = format!("{}{}{}", a, s, b);
                out.push(core.clone());
                out.push(format!("({})", core));
                out.push(format!("#({})", core));
                out.push(format!("'{}", core));
                out.push(format!("(x {} y)", core));
            }
        }
    }
    out
}

/// (3) datum trees: leaves, lists, dotted tails, vectors, quote abbreviation
fn leaves() -> Vec<&'static str> {
    vec!["a", "12", "-3/4", "1.5", "#t", "#\\a", "\"s\"", "...", "->x", "|a b|", "+", "1e2"]
}

#[derive(Clone)]
enum Tree {
    Leaf(&'static str),
    List(Vec<Tree>, Option<Box<Tree>>),
    Vect(Vec<Tree>),
    Quote(Box<Tree>),
}

fn trees(n: usize, small_leaves: bool) -> Vec<Tree> {
    if n == 1 {
        let ls = if small_leaves { vec!["a", "12", "#t", "\"s\"", "..."] } else { leaves() };
        let mut v: Vec<Tree> = ls.into_iter().map(Tree::Leaf).collect();
        v.push(Tree::List(vec![], None));
        v.push(Tree::Vect(vec![]));
        return v;
    }
    let mut out = vec![];
    for s in tree_seqs(n - 1, 3) {
        if s.is_empty() {
            continue;
        }
        out.push(Tree::List(s.clone(), None));
        out.push(Tree::Vect(s.clone()));
        // dotted tail: the last element becomes the tail (not a list: that would be a proper list)
        if s.len() >= 2 {
            let (init, last) = s.split_at(s.len() - 1);
            if matches!(last[0], Tree::Leaf(_) | Tree::Vect(_)) {
                out.push(Tree::List(init.to_vec(), Some(Box::new(last[0].clone()))));
            }
        }
    }
    for t in trees(n - 1, true) {
        out.push(Tree::Quote(Box::new(t)));
    }
    out
}
fn tree_seqs(n: usize, maxlen: usize) -> Vec<Vec<Tree>> {
    if n == 0 {
        return vec![vec![]];
    }
    if maxlen == 0 {
        return vec![];
    }
    let mut out = vec![];
    for first in 1..=n {
        for h in trees(first, true) {
            for rest in tree_seqs(n - first, maxlen - 1) {
                let mut s = vec![h.clone()];
                s.extend(rest);
                out.push(s);
            }
        }
    }
    out
}

/// token list of a tree (so that every gap can get its own separator)
fn tree_tokens(t: &Tree, out: &mut Vec<String>) {
    match t {
        Tree::Leaf(s) => out.push(s.to_string()),
        Tree::List(items, tail) => {
            out.push("(".into());
            for i in items {
                tree_tokens(i, out);
            }
            if let Some(t) = tail {
                out.push(".".into());
                tree_tokens(t, out);
            }
            out.push(")".into());
        }
        Tree::Vect(items) => {
            out.push("#(".into());
            for i in items {
                tree_tokens(i, out);
            }
            out.push(")".into());
        }
        Tree::Quote(t) => {
            out.push("'".into());
            tree_tokens(t, out);
        }
    }
}

/// is a separator required between two adjacent tokens? (computed by the reference itself)
fn needs_separator(a: &str, b: &str) -> bool {
    let sep = reflex::tokenize(&format!("{} {}", a, b), Mode::default());
    let glued = reflex::tokenize(&format!("{}{}", a, b), Mode::default());
    sep != glued
}

const GAPS: &[&str] = &["", " ", "\t", "\n", "\r\n", ";c\n", "  "];

/// all layouts of a token list: every assignment of GAPS to the gaps when there are at most
/// `full_gaps` gaps, otherwise every single-gap deviation from one blank plus the uniform layouts
pub fn layouts(tokens: &[String], full_gaps: usize) -> Vec<String> {
    let ngaps = tokens.len().saturating_sub(1);
    let allowed: Vec<Vec<&str>> = (0..ngaps).map(|g| GAPS.iter().filter(|s| !s.is_empty() || !needs_separator(&tokens[g], &tokens[g + 1])).cloned().collect()).collect();
    let render = |choice: &[&str]| {
        let mut s = String::new();
        for (i, t) in tokens.iter().enumerate() {
            s.push_str(t);
            if i < ngaps {
                s.push_str(choice[i]);
            }
        }
        s
    };
    let mut out = vec![];
    if ngaps <= full_gaps {
        let mut idx = vec![0usize; ngaps];
        loop {
            let choice: Vec<&str> = idx.iter().enumerate().map(|(g, i)| allowed[g][*i]).collect();
            out.push(render(&choice));
            let mut g = 0;
            loop {
                if g == ngaps {
                    return out;
                }
                idx[g] += 1;
                if idx[g] < allowed[g].len() {
                    break;
                }
                idx[g] = 0;
                g += 1;
            }
        }
    }
    let base: Vec<&str> = vec![" "; ngaps];
    out.push(render(&base));
    for g in 0..ngaps {
        for a in &allowed[g] {
            let mut c = base.clone();
            c[g] = a;
            out.push(render(&c));
        }
    }
    for u in GAPS {
        if u.is_empty() {
            continue;
        }
        out.push(render(&vec![*u; ngaps]));
    }
    out
}

pub fn tree_texts(max_nodes: usize, full_gaps: usize) -> Vec<String> {
    let mut out = vec![];
    for n in 1..=max_nodes {
        for t in trees(n, false) {
            let mut toks = vec![];
            tree_tokens(&t, &mut toks);
            out.extend(layouts(&toks, full_gaps));
        }
    }
    out
}

/// (4) every ASCII character (and every ordered pair of them) in every lexer state: a prefix that
/// leaves the scanner inside each token class, then the character(s), then a suffix
pub const STATE_PREFIXES: &[&str] = &[
    "", "a", "ab", "+", "-", ".", "+a", "-a", ".a", "->", "..", "...", "1", "12", "-1", "+1", "1.", "1.5", "-.5", "1e", "1e2", "1e-", "1/", "1/2", "#", "#\\", "#\\a", "#t", "#f", "\"", "\"a", "\"\\",
    "|", "|a", ";", "'", "(", "#(", "(a . ", "a ",
];
pub const STATE_SUFFIXES: &[&str] = &["", "a", " b", ")", "9", "\"", "|"];
pub fn ascii_chars() -> Vec<char> {
    let mut v: Vec<char> = (0x20u8..0x7f).map(|b| b as char).collect();
    v.extend(['\t', '\n', '\r']);
    v
}
pub fn state_texts(pairs_too: bool) -> Vec<String> {
    let cs = ascii_chars();
    let mut out = vec![];
    for p in STATE_PREFIXES {
        for s in STATE_SUFFIXES {
            for a in &cs {
                out.push(format!("{}{}{}", p, a, s));
            }
        }
        if pairs_too {
            for s in &["", "a", ")"] {
                for a in &cs {
                    for b in &cs {
                        out.push(format!("{}{}{}{}", p, a, b, s));
                    }
                }
            }
        }
    }
    out
}

/// (5) long texts: one quoted list of N copies of an element, N = 1..=300 (state that builds up
/// while ONE text is read), and N lists nested in one another, N = 1..=150
pub const LADDER_ELEMENTS: &[&str] = &["a", "(1 . 2)", "#(1)", "'x", "\"s\\\"\"", "#\\a", "1.5", "(a (b . c))", "|x y|", "; c\n a", "()", "(a . (b . (c)))"];
pub fn ladder_texts() -> Vec<String> {
    let mut out = vec![];
    for e in LADDER_ELEMENTS {
        for n in 1..=300usize {
            out.push(format!("({})", vec![*e; n].join(" ")));
        }
    }
    for n in 1..=150usize {
        out.push(format!("{}a{}", "(".repeat(n), ")".repeat(n)));
        out.push(format!("{}a . b{}", "(".repeat(n), ")".repeat(n)));
        out.push(format!("{}a{}", "#(".repeat(n), ")".repeat(n)));
    }
    // token-length ladder: digit runs of every length (leading / trailing zeros, fraction and
    // integer part, exponent), identifiers, strings and |symbols| of every length
    for n in 1..=60usize {
        out.push(format!("0.{}1", "0".repeat(n)));
        out.push(format!("0.{}25e3", "0".repeat(n)));
        out.push(format!("1{}.0", "0".repeat(n)));
        out.push(format!("1{}.5e-{}", "0".repeat(n), n));
        out.push(format!("0.{}", "1".repeat(n)));
        out.push(format!("{}.5", "9".repeat(n)));
        out.push(format!("-{}.{}", "3".repeat(n), "7".repeat(n)));
        out.push(format!("{}1", "0".repeat(n)));
        out.push(format!("{}1/{}3", "0".repeat(n), "0".repeat(n)));
        out.push(format!("1.5e{}2", "0".repeat(n)));
        if n <= 9 {
            // (exact integers beyond the i32 range are an implementation restriction: not judged)
            out.push("7".repeat(n));
        }
    }
    for n in 1..=300usize {
        out.push("a".repeat(n));
        out.push(format!("\"{}\"", "s".repeat(n)));
        out.push(format!("|{}|", "x ".repeat(n)));
        out.push(format!("(a{} . b{})", "-".repeat(n), "+".repeat(n)));
    }
    out
}

/// The interpreter is generic in its inexact type; with binary64 reals a decimal literal denotes
/// the binary64 nearest to it (not the binary32 widened). Decimals of every shape and length,
/// alone and inside quoted data.
fn wide_reals(acc: &mut Acc) {
    let mut texts: Vec<String> = ["0.1", "-0.1", "1e100", "1e-300", "2.5e-3", "3.141592653589793", "1.7976931348623157e308", "5e-324", "16777217.0", "0.30000000000000004", "123456789.123456789", ".5", "1.", "-0.0", "1e22", "1e23"].iter().map(|s| s.to_string()).collect();
    for n in 1..=40usize {
        texts.push(format!("0.{}1", "0".repeat(n)));
        texts.push(format!("1{}.5", "0".repeat(n)));
        texts.push(format!("0.{}", "3".repeat(n)));
    }
    let mut it = ruschm::interpreter::Interpreter::<f64>::new_with_stdlib();
    for t in texts {
        let want: f64 = match t.parse() {
            Ok(w) => w,
            Err(_) => continue,
        };
        for form in [t.clone(), format!("(car '({} a))", t), format!("(vector-ref '#(0 {}) 1)", t)] {
            acc.evals += 1;
            acc.count("binary64 instance: decimal literals", 1);
            let got = crate::drive::guarded(|| it.eval(form.chars()));
            let ok = matches!(&got, Ok(Ok(Some(ruschm::values::Value::Number(ruschm::values::Number::Real(x))))) if x.to_bits() == want.to_bits());
            if !ok {
                acc.mismatch(Mismatch { idx: u64::MAX - 300, case: format!("[binary64 instance] {}", form), expected: format!(": the binary64 nearest to the decimal, {:?}", want), observed: format!("{:?}", got.map(|r| r.map(|v| v.map(|x| x.to_string())).map_err(|e| e.to_string()))), payload: json!({"kind": "wide-real", "text": form}) }, None);
            }
        }
    }
}

pub fn run(ctx: &Ctx) -> i32 {
    let maxlen: usize = std::env::var("C06_LEN").ok().and_then(|s| s.parse().ok()).unwrap_or(if ctx.thorough() { 6 } else { 5 });
    let read_len = if ctx.thorough() { 5 } else { 4 };
    let k = ALPHABET.len() as u64;
    // space 1: index space = all strings of length 0..=maxlen
    let mut offsets = vec![0u64];
    for l in 0..=maxlen {
        offsets.push(offsets[l] + k.pow(l as u32));
    }
    let n_strings = *offsets.last().unwrap();
    let pairs = pair_texts();
    let treetexts = tree_texts(if ctx.thorough() { 5 } else { 4 }, if ctx.thorough() { 5 } else { 4 });
    let mut statetexts = state_texts(true);
    let n_state = statetexts.len();
    statetexts.extend(ladder_texts());
    let total = n_strings + pairs.len() as u64 + treetexts.len() as u64 + statetexts.len() as u64;
    let (offs, pr, tt, stt) = (&offsets, &pairs, &treetexts, &statetexts);
    let scratch_dir = std::path::PathBuf::from(format!("/verif/target/scratch/c06-{}", std::process::id()));
    let _ = std::fs::create_dir_all(&scratch_dir);
    let sd = &scratch_dir;
    let acc = par::sweep(
        total,
        4096,
        |_| Interp::must_new(),
        |it, acc: &mut Acc, i| {
            let (text, space, reader): (String, &str, bool) = if i < n_strings {
                let l = offs.iter().rposition(|o| *o <= i).unwrap();
                (nth_string(i - offs[l], l), "strings", l <= read_len)
            } else if i < n_strings + pr.len() as u64 {
                (pr[(i - n_strings) as usize].clone(), "token-pairs", true)
            } else if i < n_strings + pr.len() as u64 + tt.len() as u64 {
                (tt[(i - n_strings - pr.len() as u64) as usize].clone(), "datum-trees", true)
            } else {
                let k = (i - n_strings - pr.len() as u64 - tt.len() as u64) as usize;
                let t = stt[k].clone();
                if k >= n_state {
                    (t, "long-texts", true)
                } else {
                    // reader level for the single-character insertions (the pair insertions are lexed only)
                    let single = t.chars().count() <= 8 && k % 7 == 0;
                    (t, "ascii-in-every-lexer-state", single)
                }
            };
            let mut vs = vec![("lexer", judge_lex(&text))];
            if reader {
                vs.push(("reader", judge_read(it, &text)));
                // texts with line structure (or blanks that could be taken for padding) also from a file
                // (every 8th of the datum-tree layouts: they repeat the same few line structures)
                if space != "strings" && (space != "datum-trees" || i % 8 == 0) && (text.contains('\n') || text.contains('\r') || text.ends_with(' ') || text.ends_with('\t')) {
                    let f = sd.join(format!("{:?}.scm", std::thread::current().id()).replace(|c: char| !c.is_ascii_alphanumeric() && c != '.', "_"));
                    vs.push(("reader-file", judge_read_file(it, &text, &f)));
                }
            }
            for (level, v) in vs {
                acc.evals += 1;
                acc.count(&format!("{}:{}", space, level), 1);
                match v {
                    Verdict::Ok(h) => {
                        acc.distinct_hash(h);
                        acc.outcome_class(if h == 0 { "rejected" } else { "accepted" });
                        if i % (total / 5 + 1) == 7 && level == "lexer" {
                            acc.sample(i, json!({"text": text, "space": space}));
                        }
                    }
                    Verdict::Excluded(w) => acc.exclude(w, || text.clone()),
                    Verdict::Bad(e, o, known) => acc.mismatch(
                        Mismatch {
                            idx: i,
                            case: format!(
                                "[{}:{}:{}] {:?}",
                                space,
                                level,
                                if o.starts_with("PANIC") {
                                    "panic"
                                } else if e.starts_with("Malformed") || e.starts_with("rejected") {
                                    "accepts-malformed"
                                } else if o.starts_with("Error") || o.starts_with("error") {
                                    "rejects-valid"
                                } else {
                                    "wrong-result"
                                },
                                text
                            ),
                            expected: format!(": {}", e),
                            observed: o,
                            payload: json!({"text": text, "level": level}),
                        },
                        known,
                    ),
                }
            }
        },
    );
    let mut acc = acc;
    wide_reals(&mut acc);
    report::finish(
        acc,
        RunInfo {
            id: "C06".into(),
            tier: ctx.tier_name(),
            seed: ctx.seed,
            exhaustive: true,
            rule: format!("(1) every string of length <= {} over the alphabet {:?} at lexer level (tokens) and, up to length {}, at reader level ('TEXT through eval); (2) every ordered pair of {} token representatives x {} separators x 5 contexts; (3) every datum tree (12 leaf kinds, lists, dotted tails, vectors, quote) up to the node bound under every layout plan (all separator assignments for few gaps, single-gap deviations + uniform layouts otherwise); (4) every ASCII character 0x20-0x7e, tab, CR, LF - and every ordered pair of them - inserted after each of {} prefixes that leave the scanner inside each token class, followed by each suffix; (5) one quoted list of N copies of each of {} elements for every N <= 300 and N-fold nested lists / dotted lists / vectors for every N <= 150; texts of (2)-(5) that contain line breaks or end in a blank are also read from a FILE (eval_file) and must denote the same datum as the LF-normalised text; distinct = distinct token sequences / values; token-length ladder (digit runs <= 60, identifiers / strings / |symbols| <= 300); decimal literals of every shape read by the binary64 instance of the interpreter", maxlen, ALPHABET, read_len, TOKEN_REPS.len(), SEPARATORS.len(), STATE_PREFIXES.len(), LADDER_ELEMENTS.len()),
            bounds: json!({"strings": n_strings, "max_len": maxlen, "reader_level_max_len": read_len, "pair_texts": pairs.len(), "tree_texts": treetexts.len(), "ascii_state_texts": n_state, "long_texts": statetexts.len() - n_state}),
            assumptions: vec!["reflex: R7RS 7.1.1 restricted to the supported token classes, self-tested on the repository's own lexer vectors; texts using unsupported lexical syntax are only counted".into()],
            wall_s: ctx.elapsed(),
            extra: json!({}),
        },
    )
}

pub fn replay(p: &serde_json::Value) -> bool {
    let t = p["text"].as_str().unwrap();
    let mut it = Interp::new().unwrap();
    let v = if p["level"] == "reader" { judge_read(&mut it, t) } else { judge_lex(t) };
    match v {
        Verdict::Bad(e, o, _) => {
            println!("{:?}\nexpected: {}\nobserved: {}", t, e, o);
            true
        }
        _ => false,
    }
}

//! C08 — run-time errors are detected, classified, and leave the interpreter usable.
//! E-sweep over the product fault kind x calling context x depth x position x surrounding effects;
//! every program is a history of forms on ONE interpreter (fresh per program), compared form by
//! form with the reference semantics (error kinds, effects kept before / absent after the fault).
use crate::drive::{on_fresh_thread, Interp, Outcome};
use crate::refsem::{outcome_matches, show_result, Machine, Policy, POLICIES};
use crate::report::{self, hash_of, Acc, Mismatch, RunInfo};
use crate::sexp::{parse_all, Sx};
use crate::{par, Ctx};
use serde_json::json;

/// definitions available to every program
pub const SETUP: &str = "
(define (f1 a) (list 'f1 a))
(define (f2 a b) (list 'f2 a b))
(define (fr a . r) (list 'fr a r))
(define (f0) 'f0)
(define v0 (vector 10 20))
(define lit '#(1 2))
(define log (vector 0 0 0))
(define u 0)
(define (note i x) (vector-set! log i x) x)
(define (sl-many n acc) (if (< n 1) acc (sl-many (- n 1) (note 2 n) 'extra)))
(define (sl-few n acc) (if (< n 1) acc (sl-few (- n 1))))
(define (sl-rest n . r) (if (< n 1) r (sl-rest)))
(define (ma n) (if (< n 1) 0 (mb (- n 1) 1)))
(define (mb n) (ma (- n 1)))
(define (mk-loop k) (lambda (n) (if (< n 1) k ((mk-loop (+ k 1)) (- n 1) k))))
(define g2 (lambda (first second) (list 'g2 first second)))
(define (mk-g) (lambda (only) (list 'g only)))
";

/// (fault kind, expression text, is the faulting operation itself a procedure call that can sit
/// in tail position)
pub fn faults() -> Vec<(&'static str, &'static str)> {
    vec![
        ("non-procedure", "(5 1)"),
        ("non-procedure", "((car (list 1)) 2)"),
        ("non-procedure", "(v0 1)"),
        ("non-procedure", "(\"s\")"),
        ("non-procedure", "((f1 1) 2)"),
        ("non-procedure", "('f1 1)"),
        // the non-procedure is called by a library procedure written in Scheme (base.sld)
        ("non-procedure-in-library", "(map 5 '(1 2))"),
        ("non-procedure-in-library", "(for-each 'f1 '(1 2))"),
        ("non-procedure-in-library", "(fold-left \"+\" 0 '(1 2))"),
        ("non-procedure-in-library", "(fold-right v0 0 '(1))"),
        ("arity-in-library", "(map f2 '(1 2))"),
        ("arity-in-library", "(for-each f0 '(1 2))"),
        ("arity-in-library", "(fold-left f1 0 '(1 2))"),
        ("arity-few-fixed", "(f1)"),
        ("arity-few-fixed", "(f2 1)"),
        ("arity-many-fixed", "(f1 1 2)"),
        ("arity-many-fixed", "(f0 1)"),
        ("arity-many-fixed", "(f2 1 2 3)"),
        ("arity-few-rest", "(fr)"),
        // the callee is a closure made by a lambda EXPRESSION of an earlier form (not define sugar)
        ("arity-lambda-defined-earlier", "(g2 1)"),
        ("arity-lambda-defined-earlier", "(g2 1 2 3)"),
        ("arity-lambda-defined-earlier", "((mk-g) 1 2)"),
        ("arity-lambda-defined-earlier", "(apply g2 (list 1 2 3))"),
        ("arity-lambda-defined-earlier", "(map g2 (list 1 2))"),
        ("arity-lambda", "((lambda (a b) a) 1)"),
        ("arity-lambda", "((lambda (a) a) 1 2)"),
        ("arity-lambda", "((lambda () 1) 2)"),
        ("arity-lambda", "((lambda () (note 2 'ran) 1) 2 3)"),
        // the faulty call is a tail call of a later round of a trampoline run (self, mutual, new closure)
        ("arity-self-tail-later-round", "(sl-many 2 0)"),
        ("arity-self-tail-later-round", "(sl-few 2 0)"),
        ("arity-self-tail-later-round", "(sl-rest 1)"),
        ("arity-self-tail-later-round", "(ma 3)"),
        ("arity-self-tail-later-round", "((mk-loop 0) 2)"),
        ("arity-builtin-few", "(car)"),
        ("arity-builtin-few", "(cons 1)"),
        ("arity-builtin-few", "(vector-ref v0)"),
        ("arity-builtin-few", "(-)"),
        ("arity-builtin-many", "(car '(1) '(2))"),
        ("arity-builtin-many", "(cons 1 2 3)"),
        ("arity-builtin-many", "(vector-length v0 1)"),
        ("arity-library", "(cadr)"),
        ("arity-library", "(list-tail '(1 2))"),
        ("arity-library", "(null? 1 2)"),
        ("unbound-read", "nosuchvar"),
        ("unbound-read", "(+ 1 nosuchvar)"),
        ("unbound-read", "(nosuchproc 1)"),
        ("unbound-read", "(f1 nosuchvar)"),
        // a bare reference whose value is not used still has to be evaluated
        ("unbound-read", "(begin nosuchvar 1)"),
        ("unbound-read", "((lambda (a) nosuchvar a) 1)"),
        ("unbound-read", "(let ((a 1)) nosuchvar a)"),
        ("unbound-read", "(when #t nosuchvar 1)"),
        ("unbound-set", "(set! nosuchvar 1)"),
        ("wrong-type", "(car 5)"),
        ("wrong-type", "(cdr '())"),
        ("wrong-type", "(+ 1 'a)"),
        ("wrong-type", "(* \"s\" 2)"),
        ("wrong-type", "(vector-ref '(1) 0)"),
        ("wrong-type", "(vector-ref v0 'a)"),
        ("wrong-type", "(vector-set! 5 0 0)"),
        ("wrong-type", "(vector-length 'a)"),
        ("wrong-type", "(< 1 \"s\")"),
        ("wrong-type", "(abs 'a)"),
        ("wrong-type", "(apply car 5)"),
        ("wrong-type", "(cadr '(1))"),
        ("wrong-type", "(list-tail '(1) 2)"),
        ("wrong-type", "(floor \"1\")"),
        ("index", "(vector-ref v0 -1)"),
        ("index", "(vector-ref v0 2)"),
        ("index", "(vector-ref v0 3)"),
        ("index", "(vector-set! v0 2 0)"),
        ("index", "(vector-ref (vector) 0)"),
        ("literal-mutation", "(vector-set! lit 0 9)"),
        ("literal-mutation", "(vector-set! '#(1 2) 1 9)"),
        ("literal-mutation", "(vector-set! (car (list lit)) 0 9)"),
        ("div-zero", "(/ 1 0)"),
        ("div-zero", "(/ 5 (- 1 1))"),
        ("div-zero", "(floor-quotient 1 0)"),
        ("div-zero", "(floor-remainder 7 0)"),
        ("div-zero", "(/ 1/2 0)"),
        ("div-zero", "(/ 0)"),
    ]
}

/// calling contexts: (name, definitions to add, the failing form) for a fault expression F
pub fn contexts(f: &str) -> Vec<(&'static str, String, String)> {
    let mut out = vec![
        ("direct", String::new(), f.to_string()),
        ("operand", String::new(), format!("(list (tick 1 1) {} (tick 2 2))", f)),
        ("operand-in-procedure", format!("(define (p) (list {}))", f), "(p)".to_string()),
        ("tail-call", format!("(define (p) {})", f), "(p)".to_string()),
        ("tail-if", format!("(define (p c) (if c {} 0))", f), "(p #t)".to_string()),
        ("tail-cond", format!("(define (p c) (cond (c {}) (else 0)))", f), "(p 1)".to_string()),
        ("tail-let", format!("(define (p) (let ((w 1)) {}))", f), "(p)".to_string()),
        ("tail-after-effects", format!("(define (p) (note 0 'before) {})", f), "(p)".to_string()),
        ("tail-loop-third-round", format!("(define (p n) (if (< n 1) {} (p (- n 1))))", f), "(p 2)".to_string()),
        ("tail-mutual-loop", format!("(define (p n) (if (< n 1) {} (q n)))\n(define (q n) (p (- n 1)))", f), "(p 2)".to_string()),
        ("non-tail-recursion-base", format!("(define (p n) (if (< n 1) {} (list (p (- n 1)))))", f), "(p 2)".to_string()),
        ("apply-thunk", String::new(), format!("(apply (lambda () {}) '())", f)),
        ("map-callback", String::new(), format!("(map (lambda (i) {}) '(1 2))", f)),
        ("for-each-callback", String::new(), format!("(for-each (lambda (i) (note 1 i) {}) '(1 2))", f)),
        ("fold-callback", String::new(), format!("(fold-left (lambda (i acc) {}) 0 '(1 2))", f)),
        ("effects-around", format!("(define (p) (note 0 'before) (set! u 1) (list {}) (note 1 'after) (set! u 2))", f), "(p)".to_string()),
        ("define-rhs", String::new(), format!("(define newvar {})", f)),
        ("set-rhs", String::new(), format!("(set! u {})", f)),
        ("internal-define-rhs", format!("(define (p) (define w {}) w)", f), "(p)".to_string()),
        ("if-test", String::new(), format!("(if {} 1 2)", f)),
    ];
    // the faulting call spelled through apply (only for simple calls of a named procedure)
    if let Some(Sx::List(v)) = parse_all(f).into_iter().next() {
        if v.len() >= 1 && matches!(&v[0], Sx::Sym(s) if s != "set!" ) && v[1..].iter().all(|a| !matches!(a, Sx::Sym(s) if s == "nosuchvar")) {
            let args: Vec<String> = v[1..].iter().map(|a| a.to_string()).collect();
            out.push(("through-apply", String::new(), format!("(apply {} (list {}))", v[0], args.join(" "))));
            out.push(("through-apply-tail", format!("(define (p) (apply {} (list {})))", v[0], args.join(" ")), "(p)".to_string()));
        }
    }
    out
}

/// wrap the failing form in `depth` more user frames
fn deepen(defs: &str, form: &str, depth: usize) -> (String, String) {
    let mut defs = defs.to_string();
    let mut form = form.to_string();
    for d in 0..depth {
        defs.push_str(&format!("\n(define (d{}) (list 'd{} {}))", d, d, form));
        form = format!("(d{})", d);
    }
    (defs, form)
}

pub const PROBES: &[&str] = &[
    "log",
    "u",
    "(f1 5)",
    "(let ((a 1)) (cond (#f 1) (else (list a (vector-ref v0 1)))))",
    "v0",
    "lit",
    "newvar",
    "(vector-set! v0 0 11)",
    "(vector-ref v0 0)",
];

#[derive(Clone)]
pub struct Case {
    pub forms: Vec<String>,
    pub fail_index: usize,
    pub tags: Vec<String>,
}

pub fn cases(thorough: bool) -> Vec<Case> {
    let mut out = vec![];
    let valid_before = ["(note 2 'first)", "(define newvar 7)"];
    for (kind, f) in faults() {
        for (ctx, defs, form) in contexts(f) {
            let toplevel_only = matches!(ctx, "define-rhs" | "set-rhs");
            let depths: &[usize] = if toplevel_only {
                &[0]
            } else if thorough {
                &[0, 1, 2]
            } else {
                &[0, 2]
            };
            for &depth in depths {
                let positions: &[usize] = if thorough { &[0, 1, 2] } else { &[0, 2] };
                for &pos in positions {
                    let (defs2, form2) = deepen(&defs, &form, depth);
                    let mut forms: Vec<String> = vec![];
                    for b in valid_before.iter().take(pos) {
                        forms.push(b.to_string());
                    }
                    for d in parse_all(&defs2) {
                        forms.push(d.to_string());
                    }
                    let fail_index = forms.len();
                    forms.push(form2);
                    for p in PROBES {
                        forms.push(p.to_string());
                    }
                    out.push(Case {
                        forms,
                        fail_index,
                        tags: vec![format!("fault={}", kind), format!("ctx={}", ctx), format!("depth={}", depth), format!("position={}", pos)],
                    });
                }
            }
        }
    }
    // one evaluated TEXT that holds the faulting form followed by definitions: the forms behind the
    // fault are neither evaluated nor expanded - a later use of what they would define is unbound
    let mut seen_kinds: Vec<&str> = vec![];
    for (kind, f) in faults() {
        if seen_kinds.contains(&kind) {
            continue;
        }
        seen_kinds.push(kind);
        let mut forms: Vec<String> = vec![];
        let fail_index = forms.len();
        forms.push(format!("{} (define-syntax late-kw (syntax-rules () ((late-kw a) (list a a)))) (define late-var 5) (define (late-proc) 6)", f));
        forms.push("(late-kw 1)".to_string());
        forms.push("late-var".to_string());
        forms.push("(late-proc)".to_string());
        forms.push("(define (late-kw a) (list 'procedure a))".to_string());
        forms.push("(late-kw 2)".to_string());
        for p in PROBES {
            forms.push(p.to_string());
        }
        out.push(Case { forms, fail_index, tags: vec![format!("fault={}", kind), "ctx=fault-then-definitions-in-one-text".to_string()] });
    }
    // fault ladders: the same fault N times in a row on one interpreter (directly and at the bottom
    // of a non-tail recursion 20 deep), for every N up to the bound, then the probes and a valid
    // recursion: whatever a failing evaluation leaves behind (counters, marks, frames) adds up here
    let top = if thorough { 200 } else { 80 };
    let mut seen: Vec<&str> = vec![];
    for (kind, f) in faults() {
        if seen.contains(&kind) || kind.contains("later-round") {
            continue;
        }
        seen.push(kind);
        for n in 1..=top {
            if n > 12 && (n + seen.len()) % 4 != 0 {
                continue;
            }
            for deep in [false, true] {
                let mut forms: Vec<String> = vec!["(define (okrec n) (if (< n 1) 0 (+ 1 (okrec (- n 1)))))".to_string()];
                let fault_form = if deep {
                    forms.push(format!("(define (deepf n) (if (< n 1) {} (list (deepf (- n 1)))))", f));
                    "(deepf 20)".to_string()
                } else {
                    f.to_string()
                };
                let fail_index = forms.len();
                for _ in 0..n {
                    forms.push(fault_form.clone());
                }
                forms.push("(okrec 40)".to_string());
                for p in PROBES {
                    forms.push(p.to_string());
                }
                forms.push("(okrec 33)".to_string());
                out.push(Case { forms, fail_index, tags: vec![format!("fault={}", kind), "ctx=fault-ladder".to_string(), format!("ladder-deep={}", deep)] });
            }
        }
    }
    out
}

pub struct CaseResult {
    pub ok: bool,
    pub expected: String,
    pub observed: String,
    pub obs_hash: u64,
    pub fail_class: String,
    pub ref_failed_where_expected: bool,
}

pub fn judge(c: &Case, policy: Policy) -> CaseResult {
    let forms = c.forms.clone();
    let fail_index = c.fail_index;
    // fresh interpreter on a fresh thread per program: the history is on ONE interpreter
    on_fresh_thread(move || {
        let mut it = Interp::must_new();
        let mut m = Machine::new(policy);
        for f in parse_all(SETUP) {
            m.eval_top(&f).expect("reference setup");
            let o = it.eval(&f.to_string());
            if !matches!(o, Outcome::Val(_)) {
                crate::drive::impl_fail(&format!("the setup form {} => {}", f, o));
            }
        }
        let (mut exp, mut obs) = (vec![], vec![]);
        let mut ok = true;
        let mut fail_class = String::new();
        let mut ref_failed = false;
        for (i, text) in forms.iter().enumerate() {
            let sx = &parse_all(text)[0];
            m.trace.clear();
            let r = m.eval_top(sx);
            let (o, trace) = it.eval_traced(text);
            exp.push(format!("{} trace={:?}", show_result(&r), m.trace));
            obs.push(format!("{} trace={:?}", o, trace));
            if i == fail_index {
                fail_class = o.class();
                ref_failed = r.is_err();
            }
            if !(outcome_matches(&r, &o) && trace == m.trace) {
                ok = false;
                // keep going: later probes show what was corrupted
                if matches!(o, Outcome::Panic(_)) {
                    // the interpreter must still be usable after a panic was caught
                }
            }
        }
        CaseResult { ok, expected: exp.join(" ; "), observed: obs.join(" ; "), obs_hash: hash_of(&obs), fail_class, ref_failed_where_expected: ref_failed }
    })
}

fn sweep(cs: &[Case], policy: Policy) -> Acc {
    let total = cs.len() as u64;
    par::sweep(
        total,
        16,
        |_| (),
        |_, acc, i| {
            let c = &cs[i as usize];
            let r = judge(c, policy);
            acc.evals += 1;
            acc.transitions += c.forms.len() as u64;
            for t in &c.tags {
                acc.count(t, 1);
            }
            acc.outcome_class(&r.fail_class);
            acc.distinct_hash(r.obs_hash);
            assert!(r.ref_failed_where_expected, "generator bug: reference did not fail at the fault form: {:?}", c.forms);
            if i % (total / 6 + 1) == 0 {
                acc.sample(i, json!({"history": c.forms, "tags": c.tags, "observed": r.observed}));
            }
            if !r.ok {
                acc.mismatch(
                    Mismatch {
                        idx: i,
                        case: format!("[{}]\n{}", c.tags.join(" "), c.forms.join("\n")),
                        expected: r.expected,
                        observed: r.observed,
                        payload: json!({"forms": c.forms, "fail_index": c.fail_index, "tags": c.tags, "policy": [policy.left_to_right, policy.operator_first]}),
                    },
                    None,
                );
            }
        },
    )
}

pub fn run(ctx: &Ctx) -> i32 {
    let cs = cases(ctx.thorough());
    let mut best: Option<(Acc, Policy)> = None;
    for policy in POLICIES {
        let acc = sweep(&cs, policy);
        let nv = acc.n_violations;
        if best.as_ref().map(|(b, _)| nv < b.n_violations).unwrap_or(true) {
            best = Some((acc, policy));
        }
        if nv == 0 {
            break;
        }
    }
    let (mut acc, policy) = best.unwrap();
    acc.states = acc.distinct.len() as u64;
    acc.notes.push(format!("operand-order policy: left_to_right={} operator_first={}", policy.left_to_right, policy.operator_first));
    report::finish(
        acc,
        RunInfo {
            id: "C08".into(),
            tier: ctx.tier_name(),
            seed: ctx.seed,
            exhaustive: true,
            rule: format!("full product of {} faulting expressions (8 fault kinds) x calling contexts (direct, operand, tail call, tail of if/cond/let, apply, callbacks of map/for-each/fold-left, definition/assignment right-hand sides, with effects before and after the fault) x depth of user frames x position in the history; each history = setup + fault form + {} probe forms on one fresh interpreter, every form compared with the reference; transitions = forms evaluated; distinct = distinct observation vectors; fault ladders: one fault of every kind repeated N times in a row (directly / at the bottom of a non-tail recursion 20 deep) for N <= 80 (thorough 200), then the probes and valid recursions", faults().len(), PROBES.len()),
            bounds: json!({"histories": cs.len(), "faults": faults().len(), "depths": if ctx.thorough() { 3 } else { 2 }, "positions": if ctx.thorough() { 3 } else { 2 }}),
            assumptions: vec!["refsem error kinds; when a form contains several faults the generator avoids ambiguity (one fault per form)".into()],
            wall_s: ctx.elapsed(),
            extra: json!({"setup": SETUP}),
        },
    )
}

pub fn replay(p: &serde_json::Value) -> bool {
    let c = Case {
        forms: p["forms"].as_array().unwrap().iter().map(|f| f.as_str().unwrap().to_string()).collect(),
        fail_index: p["fail_index"].as_u64().unwrap_or(0) as usize,
        tags: vec![],
    };
    let pol = Policy { left_to_right: p["policy"][0].as_bool().unwrap_or(true), operator_first: p["policy"][1].as_bool().unwrap_or(true) };
    let r = judge(&c, pol);
    println!("history:\n{}\nexpected: {}\nobserved: {}", c.forms.join("\n"), r.expected, r.observed);
    !r.ok
}

//! C13 — libraries are encapsulated and loaded once per program.
//! E-hist: for each import configuration (graph x import sets x supply mode), BFS over all
//! sequences of importer operations; every transition replays the history on a fresh interpreter
//! and on the reference module system (one instance per library per program, library scope =
//! its own imports and definitions only), comparing the operation result and a probe set.
use crate::drive::{on_fresh_thread, Interp, Outcome};
use crate::explore::{bfs, StepResult, System};
use crate::refsem::{canonical_state, outcome_matches, show_result, Env, Machine, RVal, POLICIES};
use crate::report::{self, hash_of, Acc, RunInfo};
use crate::sexp::{parse1, parse_all, Sx};
use crate::Ctx;
use ruschm::interpreter::LibraryFactory;
use ruschm::library_name;
use ruschm::parser::LibraryName;
use serde_json::json;
use std::collections::HashMap;

pub const CLIB: &str = "(define-library (clib impl) (export secret) (begin (define secret 'impl-secret)))
(define-library (clib)
  (export next (rename peek look) readg setn! (rename raw-step step) use-step (rename sa sb) (rename sb sa) (rename next advance) (rename peek look-too) boot-seen use-helper lib-unless-value)
  (import (scheme base))
  (begin
    (define n 0)
    (define (h) (set! n (+ n 1)) n)
    (define (next) (h))
    (define (peek) n)
    (define (readg) g)
    (define (setn! v) (set! n v) n)
    (define (step) 'internal-step)
    (define (raw-step) 'raw-step)
    (define (use-step) (step))
    (define sa 'internal-sa)
    (define sb 'internal-sb)
    (define-syntax unless (syntax-rules () ((unless a ...) 'lib-unless)))
    (define-syntax helper (syntax-rules () ((helper a) (list 'lib-macro a))))
    (define (use-helper) (helper 1))
    (define (lib-unless-value) (unless #f 'x))
    (define boot 0)
    (set! boot (+ boot 1))
    (set! boot (+ boot 1))
    (define boot-seen boot)))";

pub const MLIB: &str = "(define-library (mlib)
  (export bump (rename helper mhelper))
  (import (scheme base) (clib))
  (begin
    (define (helper) (list 'm (look)))
    (define (bump) (next) (next))))";

/// a library WITHOUT an import declaration: its scope holds its own definitions only (getg and
/// setg! refer to a g that only the importer may define)
pub const PLAIN: &str = "(define-library (plain)
  (export getg setg! own-of (rename own-of own-alias) bump-own!)
  (begin
    (define own 'plain-own)
    (define (getg) g)
    (define (setg! v) (set! g v))
    (define (own-of) own)
    (define (bump-own!) (set! own 'bumped) own)))";

/// a library whose body faults while it is being evaluated (after it imported clib)
pub const BROKEN: &str = "(define-library (broken)
  (export bv)
  (import (scheme base) (clib))
  (begin
    (define bv (car '()))))";

/// reference view of the libraries: exports (internal, external), imported libraries, body
struct LibDef {
    exports: Vec<(&'static str, &'static str)>,
    imports: Vec<&'static str>,
    body: Vec<Sx>,
}

fn libdefs() -> HashMap<&'static str, LibDef> {
    let mut m = HashMap::new();
    m.insert(
        "clib",
        LibDef {
            exports: vec![("next", "next"), ("peek", "look"), ("readg", "readg"), ("setn!", "setn!"), ("raw-step", "step"), ("use-step", "use-step"), ("sa", "sb"), ("sb", "sa"), ("next", "advance"), ("peek", "look-too"), ("boot-seen", "boot-seen"), ("use-helper", "use-helper"), ("lib-unless-value", "lib-unless-value")],
            imports: vec![],
            body: parse_all("(define n 0) (define (h) (set! n (+ n 1)) n) (define (next) (h)) (define (peek) n) (define (readg) g) (define (setn! v) (set! n v) n) (define (step) 'internal-step) (define (raw-step) 'raw-step) (define (use-step) (step)) (define sa 'internal-sa) (define sb 'internal-sb) (define (use-helper) (list 'lib-macro 1)) (define (lib-unless-value) 'lib-unless) (define boot 0) (set! boot (+ boot 1)) (set! boot (+ boot 1)) (define boot-seen boot)"),
        },
    );
    m.insert(
        "plain",
        LibDef {
            exports: vec![("getg", "getg"), ("setg!", "setg!"), ("own-of", "own-of"), ("own-of", "own-alias"), ("bump-own!", "bump-own!")],
            imports: vec![],
            body: parse_all("(define own 'plain-own) (define (getg) g) (define (setg! v) (set! g v)) (define (own-of) own) (define (bump-own!) (set! own 'bumped) own)"),
        },
    );
    m.insert(
        "mlib",
        LibDef { exports: vec![("bump", "bump"), ("helper", "mhelper")], imports: vec!["clib"], body: parse_all("(define (helper) (list 'm (look))) (define (bump) (next) (next))") },
    );
    m
}

/// the reference module system: one instance of a library per program
struct RefModules {
    instances: HashMap<&'static str, Env>,
}
impl RefModules {
    fn instance(&mut self, m: &mut Machine, name: &'static str) -> Env {
        if let Some(e) = self.instances.get(name) {
            return e.clone();
        }
        let defs = libdefs();
        let d = &defs[name];
        let env = m.new_library_env();
        for imp in &d.imports {
            for (n, v) in self.exports(m, imp) {
                env.define(&n, v);
            }
        }
        for f in &d.body {
            m.eval_in(f, &env).expect("reference library body");
        }
        self.instances.insert(name, env.clone());
        env
    }
    fn exports(&mut self, m: &mut Machine, name: &'static str) -> Vec<(String, RVal)> {
        let env = self.instance(m, name);
        let defs = libdefs();
        defs[name].exports.iter().map(|(i, e)| (e.to_string(), env.lookup(i).expect("export").borrow().clone())).collect()
    }
}

pub struct Config {
    pub name: &'static str,
    /// the import declaration of the program
    pub import: &'static str,
    /// further import declarations evaluated after it, before any other form: (text, succeeds?)
    pub more_imports: &'static [(&'static str, bool)],
    /// (library, renames applied: (external name -> name in importer); None = all under their own names)
    pub sets: Vec<(&'static str, Option<Vec<(&'static str, &'static str)>>)>,
    pub file_supply: bool,
}

pub fn configs() -> Vec<Config> {
    let mut out = vec![];
    for file_supply in [false, true] {
        out.push(Config { name: "P->L", import: "(import (scheme base) (clib))", sets: vec![("clib", None)], more_imports: &[], file_supply });
        out.push(Config { name: "P->L,P->M->L", import: "(import (scheme base) (clib) (mlib))", sets: vec![("clib", None), ("mlib", None)], more_imports: &[], file_supply });
        out.push(Config { name: "P->M->L only", import: "(import (scheme base) (mlib))", sets: vec![("mlib", None)], more_imports: &[], file_supply });
        out.push(Config {
            name: "P->L twice",
            import: "(import (scheme base) (only (clib) next readg) (rename (except (clib) readg) (next next2) (look look2) (setn! setn2!)))",
            sets: vec![("clib", Some(vec![("next", "next"), ("readg", "readg")])), ("clib", Some(vec![("next", "next2"), ("look", "look2"), ("setn!", "setn2!"), ("step", "step"), ("use-step", "use-step"), ("sa", "sa"), ("sb", "sb"), ("advance", "advance"), ("look-too", "look-too"), ("boot-seen", "boot-seen"), ("use-helper", "use-helper"), ("lib-unless-value", "lib-unless-value")]))],
            more_imports: &[],
            file_supply,
        });
        out.push(Config { name: "P->plain (no import declaration)", import: "(import (scheme base) (plain))", sets: vec![("plain", None)], more_imports: &[], file_supply });
        out.push(Config { name: "P->L,P->plain", import: "(import (scheme base) (clib) (plain))", sets: vec![("clib", None), ("plain", None)], more_imports: &[], file_supply });
        // several declarations, one of them failing while a library is being evaluated: the
        // libraries imported before and after it still share one instance of clib
        out.push(Config {
            name: "P->L ; failing import ; P->M->L",
            import: "(import (scheme base) (clib))",
            sets: vec![("clib", None), ("mlib", None)],
            more_imports: &[("(import (broken))", false), ("(import (mlib))", true)],
            file_supply,
        });
        out.push(Config {
            name: "failing import ; P->M->L ; P->L",
            import: "(import (scheme base))",
            sets: vec![("mlib", None), ("clib", None)],
            more_imports: &[("(import (broken))", false), ("(import (mlib))", true), ("(import (broken))", false), ("(import (clib))", true)],
            file_supply,
        });
        out.push(Config { name: "P->M then P->L", import: "(import (scheme base) (mlib) (clib))", sets: vec![("mlib", None), ("clib", None)], more_imports: &[], file_supply });
    }
    out
}

pub const OPS: &[&str] = &[
    "(next)",
    "(look)",
    "(bump)",
    "(next2)",
    "(look2)",
    "(mhelper)",
    "(setn! 10)",
    "(define h 100)",
    "(define n 200)",
    "(define g 7)",
    "(define (next) 'mine)",
    "(set! next (lambda () 'assigned))",
    "(define (peek) 'importer-peek)",
    "(set! look (lambda () 'importer-look))",
    "(advance)",
    "(setg! 9)",
    "(bump-own!)",
    "(define own 'importer-own)",
    // a procedure of the importer named like a macro that is private to the library
    "(define (helper a) (list 'proc a))",
];

pub const PROBES: &[&str] = &["h", "n", "g", "peek", "helper", "(step)", "(use-step)", "sa", "sb", "raw-step", "(readg)", "(look)", "(look2)", "(mhelper)", "(next)", "(bump)", "(next2)", "(look)", "(look-too)", "(advance)", "(getg)", "(own-of)", "(own-alias)", "own", "boot-seen", "boot", "(use-helper)", "(lib-unless-value)", "(unless #f 'ran)", "(helper 2)", "secret", "(look)"];

pub struct Sys {
    cfg: usize,
    ops: Vec<Sx>,
    probes: Vec<Sx>,
    dir: std::path::PathBuf,
}

impl Sys {
    pub fn new(cfg: usize) -> Sys {
        let dir = std::path::PathBuf::from(format!("/verif/target/scratch/c13-{}", std::process::id()));
        std::fs::create_dir_all(&dir).expect("scratch");
        std::fs::write(dir.join("clib.sld"), CLIB).unwrap();
        std::fs::write(dir.join("mlib.sld"), MLIB).unwrap();
        std::fs::write(dir.join("plain.sld"), PLAIN).unwrap();
        std::fs::write(dir.join("broken.sld"), BROKEN).unwrap();
        Sys { cfg, ops: OPS.iter().map(|o| parse1(o)).collect(), probes: PROBES.iter().map(|o| parse1(o)).collect(), dir }
    }
    fn start(&self) -> (Interp, Machine) {
        let c = &configs()[self.cfg];
        let mut it = Interp::must_bare();
        if c.file_supply {
            it.it.program_directory = Some(self.dir.clone());
        } else {
            it.it.register_library_factory(LibraryFactory::from_char_stream(&library_name!("clib"), CLIB.chars()).unwrap_or_else(|e| crate::drive::impl_fail(&format!("the source of (clib) is rejected: {}", e))));
            it.it.register_library_factory(LibraryFactory::from_char_stream(&library_name!("mlib"), MLIB.chars()).unwrap_or_else(|e| crate::drive::impl_fail(&format!("the source of (mlib) is rejected: {}", e))));
            it.it.register_library_factory(LibraryFactory::from_char_stream(&library_name!("plain"), PLAIN.chars()).unwrap_or_else(|e| crate::drive::impl_fail(&format!("the source of (plain) is rejected: {}", e))));
            it.it.register_library_factory(LibraryFactory::from_char_stream(&library_name!("broken"), BROKEN.chars()).unwrap_or_else(|e| crate::drive::impl_fail(&format!("the source of (broken) is rejected: {}", e))));
        }
        let o = it.eval(c.import);
        if !matches!(o, Outcome::Val(_)) {
            crate::drive::impl_fail(&format!("[{} / {}] {} => {}", c.name, if c.file_supply { "file" } else { "source" }, c.import, o));
        }
        for (decl, _succeeds) in c.more_imports {
            // (whether each declaration succeeds is C14's subject; here only what is bound counts)
            let _ = it.eval(decl);
        }
        // reference: import into the program's global environment
        let mut m = Machine::new(POLICIES[0]);
        let mut mods = RefModules { instances: HashMap::new() };
        for (lib, renames) in &c.sets {
            let ex = mods.exports(&mut m, lib);
            for (name, v) in ex {
                match renames {
                    None => m.global.define(&name, v),
                    Some(r) => {
                        if let Some((_, to)) = r.iter().find(|(f, _)| *f == name) {
                            m.global.define(to, v);
                        }
                    }
                }
            }
        }
        (it, m)
    }
    fn run(&self, history: &[u16], op: Option<u16>) -> StepResult {
        let (mut it, mut m) = self.start();
        for o in history {
            let f = &self.ops[*o as usize];
            let _ = it.eval(&f.to_string());
            let _ = m.eval_top(f);
        }
        let (mut exp, mut obs) = (vec![], vec![]);
        let mut ok = true;
        let mut class = String::from("initial");
        if let Some(op) = op {
            let f = &self.ops[op as usize];
            let r = m.eval_top(f);
            let o = it.eval(&f.to_string());
            ok &= outcome_matches(&r, &o);
            exp.push(format!("{} => {}", f, show_result(&r)));
            obs.push(format!("{} => {}", f, o));
            class = o.class();
        }
        let key = hash_of(&canonical_state(&m));
        for p in &self.probes {
            let pr = m.eval_top(p);
            let po = it.eval(&p.to_string());
            ok &= outcome_matches(&pr, &po);
            exp.push(format!("{} => {}", p, show_result(&pr)));
            obs.push(format!("{} => {}", p, po));
        }
        StepResult { key, obs_hash: hash_of(&obs), class, mismatch: if ok { None } else { Some((exp.join(" ; "), obs.join(" ; "))) }, known: None }
    }
}

impl System for Sys {
    /// transitions run in request/response worker processes that are replaced every few hundred
    /// requests: every transition builds interpreters and library instances the implementation
    /// never frees (~300 KB each)
    type Worker = crate::supervise::ProcWorker;
    fn new_worker(&self) -> Self::Worker {
        crate::supervise::ProcWorker::new(vec!["C13".into()], 400)
    }
    fn n_ops(&self) -> usize {
        self.ops.len()
    }
    fn op_name(&self, op: usize) -> String {
        OPS[op].to_string()
    }
    fn initial_key(&self, w: &mut Self::Worker) -> u64 {
        self.remote(w, &[], None).key
    }
    fn step(&self, w: &mut Self::Worker, history: &[u16], op: u16) -> StepResult {
        self.remote(w, history, Some(op))
    }
}

impl Sys {
    fn remote(&self, w: &mut crate::supervise::ProcWorker, history: &[u16], op: Option<u16>) -> StepResult {
        let req = json!({"cfg": self.cfg, "history": history, "op": op});
        match w.request(&req) {
            Ok(j) => StepResult {
                key: j["key"].as_u64().unwrap_or(0),
                obs_hash: j["obs_hash"].as_u64().unwrap_or(0),
                class: j["class"].as_str().unwrap_or("").to_string(),
                mismatch: j["mismatch"].as_array().map(|a| (a[0].as_str().unwrap_or("").to_string(), a[1].as_str().unwrap_or("").to_string())),
                known: None,
            },
            // the transition killed or hung its worker: importing / calling did not end normally
            Err(e) => StepResult { key: hash_of(&(history, op, "died")), obs_hash: 0, class: "worker-died".into(), mismatch: Some((": the operation ends with a value or an error".into(), e)), known: None },
        }
    }
}

/// worker process entry: `mc worker C13` — one JSON request {cfg, history, op} per line
pub fn worker(_args: &[String]) {
    crate::supervise::worker_init(120_000, 24 << 30);
    let stdin = std::io::stdin();
    let mut line = String::new();
    let mut n = 0u64;
    loop {
        line.clear();
        match stdin.read_line(&mut line) {
            Ok(0) | Err(_) => break,
            Ok(_) => {}
        }
        let j: serde_json::Value = match serde_json::from_str(line.trim()) {
            Ok(j) => j,
            Err(_) => break,
        };
        let cfg = j["cfg"].as_u64().unwrap_or(0) as usize;
        let history: Vec<u16> = j["history"].as_array().map(|a| a.iter().map(|x| x.as_u64().unwrap_or(0) as u16).collect()).unwrap_or_default();
        let op = j["op"].as_u64().map(|x| x as u16);
        crate::supervise::case_begin(n);
        let r = on_fresh_thread(move || Sys::new(cfg).run(&history, op));
        crate::supervise::case_end();
        n += 1;
        crate::supervise::emit(&json!({"key": r.key, "obs_hash": r.obs_hash, "class": r.class, "mismatch": r.mismatch.map(|(e, o)| vec![e, o])}).to_string());
    }
}

/// Instance-count ladder: a stateful library, N further libraries, and a last library that imports
/// the stateful one - for every N up to the bound, the fillers side by side in one declaration or as
/// a chain importing one another. However many libraries a program instantiates, each is
/// instantiated once: the state changed through the program is the state the last library sees.
pub fn instance_ladder_case(n: usize, chain: bool) -> (Vec<String>, Vec<(String, String)>) {
    let mut libs: Vec<(String, String)> = vec![("cnt".into(), "(define-library (cnt) (import (scheme base)) (export bump! peek boots) (begin (define n 0) (define boots 0) (set! boots (+ boots 1)) (define (bump!) (set! n (+ n 1)) n) (define (peek) n)))".into())];
    for k in 1..=n {
        let imp = if chain && k > 1 { format!("(import (fill{}))", k - 1) } else { String::new() };
        libs.push((format!("fill{}", k), format!("(define-library (fill{}) {} (export f{}) (begin (define f{} {})))", k, imp, k, k, k)));
    }
    libs.push(("late".into(), "(define-library (late) (import (cnt)) (export late-peek late-bump! late-boots) (begin (define (late-peek) (peek)) (define (late-bump!) (bump!)) (define (late-boots) boots)))".into()));
    let fillers = if chain { if n > 0 { format!("(fill{})", n) } else { String::new() } } else { (1..=n).map(|k| format!("(fill{})", k)).collect::<Vec<_>>().join(" ") };
    let forms = vec![format!("(import (cnt) {} (late))", fillers), "(bump!)".into(), "(bump!)".into(), "(late-peek)".into(), "(late-bump!)".into(), "(peek)".into(), "(late-boots)".into(), if n > 0 { format!("f{}", n) } else { "boots".into() }];
    (forms, libs)
}

pub fn run_instance_ladder_case(n: usize, chain: bool) -> Result<(), (String, String)> {
    let (forms, libs) = instance_ladder_case(n, chain);
    let want: Vec<String> = vec!["#<void>|none".into(), "1".into(), "2".into(), "2".into(), "3".into(), "3".into(), "1".into(), if n > 0 { n.to_string() } else { "1".into() }];
    on_fresh_thread(move || {
        let mut it = Interp::must_new();
        for (name, src) in &libs {
            let lname = LibraryName(vec![ruschm::parser::LibraryNameElement::Identifier(name.clone())]);
            match crate::drive::guarded(|| LibraryFactory::from_char_stream(&lname, src.chars())) {
                Ok(Ok(f)) => it.it.register_library_factory(f),
                other => return Err(("the library definition is accepted".to_string(), format!("{}: {:?}", src, other.map(|r| r.map(|_| "factory").map_err(|e| e.to_string()))))),
            }
        }
        let mut seen = vec![];
        for (i, f) in forms.iter().enumerate() {
            let o = it.eval(f);
            let shown = format!("{}", o);
            seen.push(format!("{} => {}", f, shown));
            let ok = if i == 0 { matches!(o, Outcome::Val(_)) } else { shown == want[i] };
            if !ok {
                return Err((format!("{} => {}", f, want[i]), seen.join(" ; ")));
            }
        }
        Ok(())
    })
}

pub fn run(ctx: &Ctx) -> i32 {
    let depth: usize = std::env::var("C13_DEPTH").ok().and_then(|s| s.parse().ok()).unwrap_or(if ctx.thorough() { 6 } else { 4 });
    let silencer = crate::drive::StdoutSilencer::new();
    let mut acc = Acc::new();
    let mut per_cfg = vec![];
    let mut capped = false;
    for (ci, c) in configs().iter().enumerate() {
        let sys = Sys::new(ci);
        // the initial state itself (imports + probes) is a checked transition
        let init = sys.run(&[], None);
        acc.evals += 1;
        acc.transitions += 1;
        if let Some((e, o)) = init.mismatch {
            acc.mismatch(report::Mismatch { idx: ci as u64, case: format!("[{} / {}] {}", c.name, if c.file_supply { "file" } else { "source" }, c.import), expected: e, observed: o, payload: json!({"config": ci, "history": []}) }, None);
        }
        let mut ex = bfs(&sys, depth, 3_000_000, "C13");
        capped |= ex.capped;
        per_cfg.push(json!({"config": c.name, "supply": if c.file_supply { "file" } else { "registered source" }, "states": ex.acc.states, "transitions": ex.acc.transitions, "new_states_per_depth": ex.states_per_depth, "depth_completed": ex.completed_depth}));
        // tag violations with the configuration
        for v in ex.acc.violations.iter_mut() {
            v.case = format!("[{} / {}] {}\n{}", c.name, if c.file_supply { "file" } else { "source" }, c.import, v.case);
            v.payload["config"] = json!(ci);
        }
        acc.merge(ex.acc);
    }
    let ladder = if ctx.thorough() { 128 } else { 48 };
    for n in 0..=ladder {
        for chain in [false, true] {
            acc.evals += 1;
            acc.transitions += 8;
            acc.count("instance-count ladder: stateful library, N fillers, late importer", 1);
            if let Err((e, o)) = run_instance_ladder_case(n, chain) {
                acc.mismatch(report::Mismatch { idx: 9_000_000 + (n * 2 + chain as usize) as u64, case: format!("[instance-count ladder: {} filler libraries, {}]", n, if chain { "importing one another" } else { "side by side" }), expected: e, observed: o, payload: json!({"kind": "instance-ladder", "n": n, "chain": chain}) }, None);
            }
        }
    }
    drop(silencer);
    let _ = std::fs::remove_dir_all(format!("/verif/target/scratch/c13-{}", std::process::id()));
    report::finish(
        acc,
        RunInfo {
            id: "C13".into(),
            tier: ctx.tier_name(),
            seed: ctx.seed,
            exhaustive: !capped,
            rule: format!("for each of {} configurations (import graphs P->L; P->L and P->M->L; P->M->L only; L imported twice through different import sets; M before L; each with the libraries as registered sources and as files): breadth-first search over all histories of {} importer operations (calls of exported procedures, definitions colliding with library internals, redefinition and assignment of imported names) up to the depth bound; states = canonical dumps of the reference module system; instance-count ladder: a stateful library, N filler libraries (side by side / importing one another) for every N <= 48 (thorough 128) and a last library importing the stateful one must see the state the program changed; every transition compares the operation and {} probes (internals must be unbound, the library must not see the importer's g, one shared instance)", configs().len(), OPS.len(), PROBES.len()),
            bounds: json!({"depth": depth, "per_configuration": per_cfg}),
            assumptions: vec!["reference module system: one instance per library per program, library environments see only their imports and definitions".into()],
            wall_s: ctx.elapsed(),
            extra: json!({"clib": CLIB, "mlib": MLIB, "plain": PLAIN, "broken": BROKEN, "operations": OPS, "probes": PROBES}),
        },
    )
}

pub fn replay(p: &serde_json::Value) -> bool {
    if p["kind"] == "instance-ladder" {
        let r = run_instance_ladder_case(p["n"].as_u64().unwrap() as usize, p["chain"].as_bool().unwrap());
        println!("{:?}", r);
        return r.is_err();
    }
    let ci = p["config"].as_u64().unwrap_or(0) as usize;
    let h: Vec<u16> = p["history"].as_array().unwrap().iter().map(|x| x.as_u64().unwrap() as u16).collect();
    let sys = Sys::new(ci);
    let _s = crate::drive::StdoutSilencer::new();
    let r = if h.is_empty() { sys.run(&[], None) } else { sys.run(&h[..h.len() - 1], Some(h[h.len() - 1])) };
    drop(_s);
    match r.mismatch {
        Some((e, o)) => {
            println!("config {}: {}\nhistory: {:?}\nexpected: {}\nobserved: {}", ci, configs()[ci].import, h.iter().map(|o| OPS[*o as usize]).collect::<Vec<_>>(), e, o);
            true
        }
        None => false,
    }
}

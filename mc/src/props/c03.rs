//! C03 — mutable state: bindings and vectors are shared by reference.
//! E-hist: BFS over histories of operations on a pool of counters, variables and vectors; every
//! transition replays the history on the real interpreter and on refsem (the store model), then
//! compares the operation's result, a full (destructive) probe set and the alias partition of all
//! reachable vectors. States are deduplicated on the canonical dump of the reference store.
use crate::drive::{Interp, Outcome};
use crate::explore::{bfs, StepResult, System};
use crate::refsem::{canonical_state, outcome_matches, show_result, Machine, RVal, POLICIES};
use crate::report::{self, hash_of, Acc, RunInfo};
use crate::sexp::{parse_all, Sx};
use crate::Ctx;
use ruschm::values::Value;
use serde_json::json;
use std::rc::Rc;

pub const SETUP: &str = "
(define (g1) (define n 0) (lambda () (set! n (+ n 1)) n))
(define (g2) (define n 0) (define (wrap) (list (lambda () (set! n (+ n 1)) n) (lambda () n))) (wrap))
(define u 0)
(define w 0)
(define (getu) u)
(define (setparam p) (set! p 99) p)
(define (bump-w) (set! w (+ w 1)) w)
(define (make-node)
  (define total 0)
  (define next #f)
  (lambda (msg x)
    (set! total (+ total (if (= msg 2) x 0)))
    (if (= msg 0) (set! next x) (if (= msg 1) total (if next (next 2 x) total)))))
(define (collect i acc) (if (= i 0) acc (collect (- i 1) (cons (lambda () (set! i (+ i 10)) i) acc))))
(define na (make-node))
(define nb (make-node))
(define nc (make-node))
(na 0 nb)
(nb 0 nc)
";

pub const OPS: &[&str] = &[
    "(define c1 (g1))",
    "(define c2 (g1))",
    "(c1)",
    "(c2)",
    "(define d1 (g2))",
    "((car d1))",
    "(define d2 (g2))",
    "((car d2))",
    "(set! u 1)",
    "(set! u (+ u 2))",
    "(define u 5)",
    "(setparam u)",
    "(bump-w)",
    "(define getw (let ((w 10)) (lambda () (set! w (+ w 1)) w)))",
    "(getw)",
    "(define v1 (vector 0 0))",
    "(define v1 '#(0 0))",
    "(define v2 v1)",
    "(define v2 (vector 0 0))",
    "(define l (list v1))",
    "(vector-set! (car l) 0 1)",
    "(define vv (vector v1 v1))",
    "(vector-set! (vector-ref vv 1) 1 2)",
    "((lambda (p) (vector-set! p 0 2)) v1)",
    "(define setter (let ((cap v1)) (lambda (i x) (vector-set! cap i x))))",
    "(setter 1 1)",
    "(define mv (make-vector 2 v1))",
    "(vector-set! (vector-ref mv 0) 0 3)",
    "(vector-set! v1 0 1)",
    "(vector-set! v1 1 2)",
    "(vector-set! v2 0 2)",
    "(vector-set! v2 1 (quote z))",
    // a top-level variable named like the generators' internal definition
    "(define n 100)",
    "(set! n (+ n 1))",
    // vectors and closures stored in vector slots (overwriting equal-looking but distinct objects)
    "(define box (vector v1 1))",
    "(vector-set! box 0 v2)",
    "(vector-set! box 1 1.0)",
    "(vector-set! box 1 (vector-ref box 0))",
    "(define cbox (vector c1))",
    "(vector-set! cbox 0 c2)",
    "((vector-ref cbox 0))",
    // a chain of sibling closures (one maker, private totals): each adds to its own total and
    // tail-calls the next one
    "(na 2 5)",
    "(nb 2 1)",
    // one name bound twice by a let* with a closure made in between; closures over the parameter
    // of a self-tail-recursive loop (one binding per round)
    "(define zs (let* ((z 0) (getz (lambda () z)) (z 10)) (set! z (+ z 1)) (list getz (lambda () z))))",
    "(define ks (collect 3 '()))",
    // assignments whose new value looks like the old one and is another object: a vector with the
    // same contents, a new closure of the same lambda, the same number with the other exactness
    "(set! v1 v2)",
    "(set! c1 (g1))",
    "(set! u 1.0)",
    // state-changing calls as operands of a derived form that must evaluate each at most once
    "(or (c1) (c2))",
];

/// destructive probes, run after the canonical state has been taken
pub const PROBES: &[&str] = &[
    "u", "w", "(getu)", "(c1)", "(c2)", "((cadr d1))", "((car d1))", "((cadr d1))", "((cadr d2))", "(getw)", "w", "v1", "v2", "l", "vv", "mv", "(setparam u)", "u",
    "(bump-w)", "w", "n", "box", "((vector-ref cbox 0))", "(c1)", "(c2)", "(vector-set! v1 0 7)", "v1", "v2", "l", "vv", "mv", "(setter 0 8)", "v1", "v2", "box", "(vector-set! v2 1 6)", "box", "v1", "n", "(na 1 0)", "(nb 1 0)", "(nc 1 0)", "(na 2 3)", "(list (na 1 0) (nb 1 0) (nc 1 0))", "((car zs))", "((cadr zs))", "(map (lambda (k) (k)) ks)", "((car ks))",
];

/// places whose values may be vectors: the alias partition is computed over them
pub const PLACES: &[&str] = &["v1", "v2", "(car l)", "(vector-ref vv 0)", "(vector-ref vv 1)", "(vector-ref mv 0)", "(vector-ref mv 1)", "(vector-ref v2 1)", "(vector-ref box 0)", "(vector-ref box 1)"];

pub struct Sys {
    setup: Vec<Sx>,
    ops: Vec<Sx>,
    probes: Vec<Sx>,
    places: Vec<Sx>,
    pub fresh: bool,
}

impl Sys {
    pub fn new(fresh: bool) -> Sys {
        Sys {
            setup: parse_all(SETUP),
            ops: OPS.iter().map(|o| crate::sexp::parse1(o)).collect(),
            probes: PROBES.iter().map(|o| crate::sexp::parse1(o)).collect(),
            places: PLACES.iter().map(|o| crate::sexp::parse1(o)).collect(),
            fresh,
        }
    }
    fn replay(&self, it: &mut Interp, m: &mut Machine, history: &[u16]) {
        for f in &self.setup {
            let o = it.eval(&f.to_string());
            if !matches!(o, Outcome::Val(_)) {
                crate::drive::impl_fail(&format!("the setup form {} => {}", f, o));
            }
            m.eval_top(f).expect("reference setup");
        }
        for o in history {
            let f = &self.ops[*o as usize];
            let _ = it.eval(&f.to_string());
            let _ = m.eval_top(f);
        }
    }
    /// alias matrix of the vector-valued places (None where the place is not a vector)
    fn alias_impl(&self, it: &mut Interp) -> Vec<Option<usize>> {
        let vals: Vec<Option<Value<f32>>> = self.places.iter().map(|p| it.eval_raw(&p.to_string()).ok().flatten()).collect();
        let mut classes: Vec<Option<usize>> = vec![None; vals.len()];
        for i in 0..vals.len() {
            if let Some(Value::Vector(a)) = &vals[i] {
                let mut c = i;
                for j in 0..i {
                    if let Some(Value::Vector(b)) = &vals[j] {
                        if a.ptr_eq(b) {
                            c = classes[j].unwrap();
                            break;
                        }
                    }
                }
                classes[i] = Some(c);
            }
        }
        classes
    }
    fn alias_ref(&self, m: &mut Machine) -> Vec<Option<usize>> {
        let vals: Vec<Option<RVal>> = self.places.iter().map(|p| m.eval_top(p).ok()).collect();
        let mut classes: Vec<Option<usize>> = vec![None; vals.len()];
        for i in 0..vals.len() {
            if let Some(RVal::Vector(a)) = &vals[i] {
                let mut c = i;
                for j in 0..i {
                    if let Some(RVal::Vector(b)) = &vals[j] {
                        if Rc::ptr_eq(a, b) {
                            c = classes[j].unwrap();
                            break;
                        }
                    }
                }
                classes[i] = Some(c);
            }
        }
        classes
    }
}

pub struct Worker {
    it: Interp,
}

impl System for Sys {
    type Worker = Worker;
    fn new_worker(&self) -> Worker {
        Worker { it: Interp::must_new() }
    }
    fn n_ops(&self) -> usize {
        self.ops.len()
    }
    fn op_name(&self, op: usize) -> String {
        OPS[op].to_string()
    }
    fn initial_key(&self, w: &mut Worker) -> u64 {
        let mut m = Machine::new(POLICIES[0]);
        w.it.fresh_frame();
        self.replay(&mut w.it, &mut m, &[]);
        hash_of(&canonical_state(&m))
    }
    fn step(&self, w: &mut Worker, history: &[u16], op: u16) -> StepResult {
        let mut fresh_it;
        let it: &mut Interp = if self.fresh {
            fresh_it = Interp::must_new();
            &mut fresh_it
        } else {
            w.it.fresh_frame();
            &mut w.it
        };
        let mut m = Machine::new(POLICIES[0]);
        self.replay(it, &mut m, history);
        let f = &self.ops[op as usize];
        let r = m.eval_top(f);
        let o = it.eval(&f.to_string());
        let key = hash_of(&canonical_state(&m));
        let mut exp = vec![format!("{} => {}", f, show_result(&r))];
        let mut obs = vec![format!("{} => {}", f, o)];
        let mut ok = outcome_matches(&r, &o);
        let class = o.class();
        // alias partition (non-destructive)
        let (ai, ar) = (self.alias_impl(it), self.alias_ref(&mut m));
        exp.push(format!("alias classes of {:?} = {:?}", PLACES, ar));
        obs.push(format!("alias classes of {:?} = {:?}", PLACES, ai));
        ok &= ai == ar;
        // destructive probes
        for p in &self.probes {
            let pr = m.eval_top(p);
            let po = it.eval(&p.to_string());
            ok &= outcome_matches(&pr, &po);
            exp.push(format!("{} => {}", p, show_result(&pr)));
            obs.push(format!("{} => {}", p, po));
        }
        let obs_hash = hash_of(&obs);
        StepResult { key, obs_hash, class, mismatch: if ok { None } else { Some((exp.join(" ; "), obs.join(" ; "))) }, known: None }
    }
}

/// Scale ladder: one store shape at every size N - a vector of N slots filled by a loop and read
/// back through an alias, N assignments to one variable, one counter called N times, N counters
/// from one generator each called a different number of times, N closures over one shared binding,
/// a frame with N bindings of which the last is assigned through a closure.
pub fn scale_program(n: usize, family: usize) -> Vec<String> {
    match family {
        0 => vec![
            format!("(define sv (make-vector {} 0))", n),
            "(define alias sv)".into(),
            "(define (fill i) (if (< i (vector-length sv)) (begin (vector-set! sv i (+ i 100)) (fill (+ i 1))) 'done))".into(),
            "(fill 0)".into(),
            format!("(list (vector-ref alias 0) (vector-ref alias {}) (vector-ref sv {}) (vector-length alias))", n - 1, n / 2),
            format!("(vector-set! alias {} 'last)", n - 1),
            format!("(vector-ref sv {})", n - 1),
            format!("(vector-ref sv {})", n),
        ],
        1 => {
            let mut v = vec!["(define a 0)".to_string(), "(define (geta) a)".to_string()];
            for i in 1..=n {
                v.push(format!("(set! a (+ a {}))", i));
            }
            v.push("(list a (geta))".into());
            v
        }
        2 => {
            let mut v = vec!["(define (gen) (define k 0) (lambda () (set! k (+ k 1)) k))".to_string(), "(define c (gen))".to_string(), "(define (times i) (if (< i 1) 'done (begin (c) (times (- i 1)))))".to_string()];
            v.push(format!("(times {})", n));
            v.push("(c)".into());
            v.push("(define d (gen))".into());
            v.push("(list (d) (c))".into());
            v
        }
        3 => {
            let mut v = vec!["(define (gen) (define k 0) (lambda () (set! k (+ k 1)) k))".to_string()];
            v.push(format!("(define cs (list {}))", (0..n).map(|_| "(gen)").collect::<Vec<_>>().join(" ")));
            v.push("(define (nth l i) (if (< i 1) (car l) (nth (cdr l) (- i 1))))".into());
            v.push(format!("((nth cs {}))", n - 1));
            v.push(format!("((nth cs {}))", n - 1));
            v.push("((nth cs 0))".into());
            v.push(format!("(list ((nth cs {})) ((nth cs {})))", n - 1, n / 2));
            v
        }
        4 => {
            let mut v = vec!["(define shared 0)".to_string()];
            v.push(format!("(define bumpers (list {}))", (1..=n).map(|i| format!("(lambda () (set! shared (+ shared {})) shared)", i)).collect::<Vec<_>>().join(" ")));
            v.push("(define (run-all l) (if (null? l) shared (begin ((car l)) (run-all (cdr l)))))".into());
            v.push("(run-all bumpers)".into());
            v.push("shared".into());
            v
        }
        _ => {
            let ps: Vec<String> = (1..=n).map(|i| format!("p{}", i)).collect();
            vec![
                "(define total 100)".to_string(),
                format!("(define (frame {}) (define total 0) (define (add! x) (set! total (+ total x)) total) (set! p{} (+ p{} 1)) (add! p{}) (add! p1) (list total p{}))", ps.join(" "), n, n, n, n),
                format!("(frame {})", (1..=n).map(|i| i.to_string()).collect::<Vec<_>>().join(" ")),
                "total".into(),
            ]
        }
    }
}

fn scale_phase(top: usize) -> Acc {
    crate::par::sweep(
        (top * 6) as u64,
        8,
        |_| (),
        |_, acc: &mut Acc, i| {
            let (n, family) = (i as usize / 6 + 1, i as usize % 6);
            let forms = scale_program(n, family);
            let fs = forms.clone();
            let (ok, exp, obs) = crate::drive::on_fresh_thread(move || {
                let mut it = Interp::must_new();
                let mut m = Machine::new(POLICIES[0]);
                m.fuel = 2_000_000;
                let (mut exp, mut obs, mut ok) = (vec![], vec![], true);
                for f in &fs {
                    let r = m.eval_top(&crate::sexp::parse1(f));
                    let o = it.eval(f);
                    ok &= outcome_matches(&r, &o);
                    exp.push(format!("{} => {}", f.chars().take(60).collect::<String>(), show_result(&r)));
                    obs.push(format!("{}", o));
                }
                (ok, exp, obs)
            });
            acc.evals += 1;
            acc.transitions += forms.len() as u64;
            acc.count(&format!("scale ladder: family {}", family), 1);
            acc.distinct_hash(hash_of(&(family, &obs)));
            if !ok {
                acc.mismatch(crate::report::Mismatch { idx: 70_000_000 + i, case: format!("[scale ladder: family {} n={}]\n{}", family, n, forms.iter().map(|f| f.chars().take(200).collect::<String>()).collect::<Vec<_>>().join("\n")), expected: exp.join(" ; "), observed: obs.join(" ; "), payload: json!({"kind": "scale", "n": n, "family": family}) }, None);
            }
        },
    )
}

pub fn run(ctx: &Ctx) -> i32 {
    let depth: usize = std::env::var("C03_DEPTH").ok().and_then(|s| s.parse().ok()).unwrap_or(if ctx.thorough() { 7 } else { 5 });
    let cap: u64 = if ctx.thorough() { 40_000_000 } else { 1_500_000 };
    let sys = Sys::new(false);
    let mut ex = bfs(&sys, depth, cap, "C03");
    // differential: the lower levels once more with a NEW interpreter per transition
    let fresh_depth = if ctx.thorough() { 4 } else { 3 };
    let sysf = Sys::new(true);
    let exf = bfs(&sysf, fresh_depth, cap, "C03");
    ex.acc.notes.push(format!(
        "fresh-interpreter rerun to depth {}: states={} transitions={} violations={} (pooled run at the same depth must agree)",
        fresh_depth, exf.acc.states, exf.acc.transitions, exf.acc.n_violations
    ));
    let pooled_states_at: u64 = ex.states_per_depth.iter().take(fresh_depth + 1).sum();
    let fresh_states_at: u64 = exf.states_per_depth.iter().sum();
    if pooled_states_at != fresh_states_at {
        ex.acc.notes.push(format!("MACHINERY-WARNING: pooled and fresh state counts differ: {} vs {}", pooled_states_at, fresh_states_at));
    }
    let mut acc = ex.acc;
    let fv = exf.acc.n_violations;
    acc.n_violations += fv;
    acc.violations.extend(exf.acc.violations);
    let scale = if ctx.thorough() { 400 } else { 150 };
    acc.merge(scale_phase(scale));
    report::finish(
        acc,
        RunInfo {
            id: "C03".into(),
            tier: ctx.tier_name(),
            seed: ctx.seed,
            exhaustive: !ex.capped,
            rule: format!("breadth-first search over all histories of {} operations (counter generators with private and shared bindings, set!/define of captured top-level variables, parameter assignment, vectors aliased through variables, lists, vectors, arguments, closures and make-vector fill, literal vectors) up to the depth bound; scale ladder: vectors of N slots filled by a loop and read through an alias, N assignments to one variable, a counter called N times, N counters of one generator, N closures over one binding, frames with N bindings, for every N <= 150 (thorough 400); states = distinct canonical dumps of the reference store; every transition compares the operation result, the alias partition of {} places and {} probe forms", OPS.len(), PLACES.len(), PROBES.len()),
            bounds: json!({"depth_completed": ex.completed_depth, "depth_requested": depth, "new_states_per_depth": ex.states_per_depth, "transition_cap": cap, "cap_hit": ex.capped, "fresh_mode_depth": fresh_depth}),
            assumptions: vec!["refsem is the store model (bindings as locations, vectors with identity and mutability flag)".into(), "pooled mode: each replay runs in a new child frame of the stdlib frame; cross-checked against new-interpreter replays at the lower depths".into()],
            wall_s: ctx.elapsed(),
            extra: json!({"setup": SETUP, "operations": OPS, "probes": PROBES}),
        },
    )
}

pub fn replay(p: &serde_json::Value) -> bool {
    if p["kind"] == "scale" {
        let forms = scale_program(p["n"].as_u64().unwrap() as usize, p["family"].as_u64().unwrap() as usize);
        let mut it = Interp::must_new();
        let mut m = Machine::new(POLICIES[0]);
        m.fuel = 2_000_000;
        let mut bad = false;
        for f in &forms {
            let r = m.eval_top(&crate::sexp::parse1(f));
            let o = it.eval(f);
            println!("{} => {} (reference {})", f.chars().take(100).collect::<String>(), o, show_result(&r));
            bad |= !outcome_matches(&r, &o);
        }
        return bad;
    }
    let h: Vec<u16> = p["history"].as_array().unwrap().iter().map(|x| x.as_u64().unwrap() as u16).collect();
    let sys = Sys::new(true);
    let mut w = sys.new_worker();
    let (hist, op) = h.split_at(h.len() - 1);
    let r = sys.step(&mut w, hist, op[0]);
    match r.mismatch {
        Some((e, o)) => {
            println!("history:\n{}\nexpected: {}\nobserved: {}", h.iter().map(|o| OPS[*o as usize]).collect::<Vec<_>>().join("\n"), e, o);
            true
        }
        None => false,
    }
}

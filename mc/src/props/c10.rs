//! C10 — numeric comparison is the mathematical order; max/min; eqv? on numbers.
use crate::drive::{Interp, Obs, Outcome};
use crate::numgrid::{grid, GridNum};
use crate::props::c09::{case_pretty, case_text, setup_interp};
use crate::refnum::{self, RNum};
use crate::report::{self, hash_of, Acc, Mismatch, RunInfo};
use crate::{par, Ctx};
use serde_json::json;
use std::cmp::Ordering;

const PREDS: &[&str] = &["=", "<", ">", "<=", ">="];
const EXTREMA: &[&str] = &["max", "min"];

fn holds(p: &str, o: Option<Ordering>) -> bool {
    match (p, o) {
        (_, None) => false,
        ("=", Some(o)) => o == Ordering::Equal,
        ("<", Some(o)) => o == Ordering::Less,
        (">", Some(o)) => o == Ordering::Greater,
        ("<=", Some(o)) => o != Ordering::Greater,
        (">=", Some(o)) => o != Ordering::Less,
        _ => unreachable!(),
    }
}

pub enum Verdict {
    Ok,
    Excluded(&'static str),
    Bad(String),
}

pub fn judge(op: &str, args: &[RNum], out: &Outcome) -> Verdict {
    if PREDS.contains(&op) {
        let want = args.windows(2).all(|w| holds(op, w[0].cmp(w[1])));
        return match out {
            Outcome::Val(Obs::Bool(b)) if *b == want => Verdict::Ok,
            o => Verdict::Bad(format!("expected {}, got {}", if want { "#t" } else { "#f" }, o)),
        };
    }
    if op == "eqv?" {
        // 0.0 and -0.0 are numerically equal: the statement makes them eqv? (R7RS 6.1 would not;
        // the property is the authority here and the pinned tree satisfies it)
        let want = args[0].is_exact() == args[1].is_exact() && args[0].num_eq(args[1]);
        return match out {
            Outcome::Val(Obs::Bool(b)) if *b == want => Verdict::Ok,
            o => Verdict::Bad(format!("expected {}, got {}", if want { "#t" } else { "#f" }, o)),
        };
    }
    // max / min
    let any_inexact = args.iter().any(|a| !a.is_exact());
    let mut best = args[0];
    for a in &args[1..] {
        let c = a.cmp(best);
        let better = if op == "max" { c == Some(Ordering::Greater) } else { c == Some(Ordering::Less) };
        if better {
            best = *a;
        }
    }
    let want = if any_inexact { RNum::Inexact(best.to_f32()) } else { best };
    match out {
        Outcome::Val(o) => {
            if refnum::matches(&want, o) {
                return Verdict::Ok;
            }
            if let (RNum::Inexact(w), Obs::Real(bits)) = (&want, o) {
                let g = f32::from_bits(*bits);
                if *w == 0.0 && g == 0.0 {
                    return Verdict::Excluded("sign of zero in max/min");
                }
                // a ratio beyond 2^24 converted: representation dependent
                if args.iter().any(|a| matches!(a, RNum::Exact(_, d) if *d != 1 && a.magnitude() > (1 << 24))) {
                    return Verdict::Excluded("exact ratio with components beyond 2^24 converted to binary32");
                }
            }
            Verdict::Bad(format!("expected {}, got {}", want, o))
        }
        o => Verdict::Bad(format!("expected {}, got {}", want, o)),
    }
}

pub struct Space {
    pub g: Vec<GridNum>,
    n2: u64,
    n3: u64,
    ne: u64,
}
impl Space {
    pub fn new(thorough: bool) -> Space {
        let g = grid(thorough);
        let n = g.len() as u64;
        let ops = (PREDS.len() + EXTREMA.len()) as u64;
        Space { n2: ops * n * n, n3: ops * n * n * n, ne: n * n, g }
    }
    pub fn total(&self) -> u64 {
        self.n2 + self.n3 + self.ne
    }
    fn op(k: usize) -> &'static str {
        if k < PREDS.len() {
            PREDS[k]
        } else {
            EXTREMA[k - PREDS.len()]
        }
    }
    pub fn case(&self, mut i: u64) -> (&'static str, Vec<usize>) {
        let n = self.g.len() as u64;
        if i < self.ne {
            return ("eqv?", vec![(i / n) as usize, (i % n) as usize]);
        }
        i -= self.ne;
        if i < self.n2 {
            let r = i % (n * n);
            return (Self::op((i / (n * n)) as usize), vec![(r / n) as usize, (r % n) as usize]);
        }
        i -= self.n2;
        let r = i % (n * n * n);
        (Self::op((i / (n * n * n)) as usize), vec![(r / (n * n)) as usize, ((r / n) % n) as usize, (r % n) as usize])
    }
}

/// calls that fail part-way (a non-number after numbers of either exactness, at every position)
pub const POISON_ARGS: &[&str] = &["1.5 'a", "1 'a", "'a", "1/2 \"s\"", "1.5 2 'a", "'a 1.5", "2 1.5 'a 3", "1.5 (car '())", "1 2.5 (vector-ref (vector) 0)"];
const PROBE_TEXTS: &[&str] = &["1", "2", "1.5", "1/2", "-0.0", "0.0", "16777217", "3.0", "-3", "16777216.0"];

/// histories of length 2 on one interpreter and thread: every failing call of every operation,
/// then every operation on every pair of a sub-grid; the second result must not depend on the first
fn history_phase(sp: &Space, acc: &mut Acc) {
    let mut it = setup_interp(&sp.g);
    let probes: Vec<usize> = PROBE_TEXTS.iter().map(|t| sp.g.iter().position(|x| &x.text == t).unwrap_or_else(|| panic!("probe {} not in the grid", t))).collect();
    let mut all_ops: Vec<&str> = PREDS.to_vec();
    all_ops.extend(EXTREMA);
    all_ops.push("eqv?");
    for pop in &all_ops {
        for pargs in POISON_ARGS {
            let poison = format!("({} {})", pop, pargs);
            for op in &all_ops {
                for a in &probes {
                    for b in &probes {
                        // (whether the first call fails or short-circuits is not judged here)
                        let _ = it.eval(&poison);
                        let idx = vec![*a, *b];
                        let out = it.eval(&case_text(op, &idx));
                        let args: Vec<RNum> = idx.iter().map(|k| sp.g[*k].val).collect();
                        acc.evals += 1;
                        acc.count("history: failing call then probe", 1);
                        if let Verdict::Bad(why) = judge(op, &args, &out) {
                            acc.mismatch(
                                Mismatch {
                                    idx: u64::MAX - 2,
                                    case: format!("[after {}] {}", poison, case_pretty(&sp.g, op, &idx)),
                                    expected: why,
                                    observed: format!("{}", out),
                                    payload: json!({"op": op, "operands": idx.iter().map(|k| sp.g[*k].text.clone()).collect::<Vec<_>>(), "after": poison}),
                                },
                                None,
                            );
                        }
                    }
                }
            }
        }
    }
}

fn scale_phase(sp: &Space, acc: &mut Acc, max: usize) {
    let lists = super::c09::scale_operands(&sp.g, &["1", "2", "1.5", "1/2", "-0.0", "0.0", "16777217", "3.0", "-3", "16777216.0"], max);
    let mut all_ops: Vec<&str> = PREDS.to_vec();
    all_ops.extend(EXTREMA);
    let (lr, ops) = (&lists, &all_ops);
    let part = par::sweep(
        (lists.len() * all_ops.len()) as u64,
        256,
        |_| setup_interp(&sp.g),
        |it: &mut Interp, acc: &mut Acc, i| {
            let op = ops[i as usize % ops.len()];
            let idx = &lr[i as usize / ops.len()];
            let out = it.eval(&case_text(op, idx));
            let args: Vec<RNum> = idx.iter().map(|k| sp.g[*k].val).collect();
            acc.evals += 1;
            acc.count("scale ladder: operand lists of length 3..N", 1);
            acc.distinct_hash(hash_of(&(op, &out, idx.len() % 2)));
            match judge(op, &args, &out) {
                Verdict::Ok => {}
                Verdict::Excluded(why) => acc.exclude(why, || format!("{} => {}", case_pretty(&sp.g, op, idx), out)),
                Verdict::Bad(why) => acc.mismatch(
                    Mismatch {
                        idx: u64::MAX - 3,
                        case: format!("[{} operands] {}", idx.len(), case_pretty(&sp.g, op, idx)),
                        expected: why,
                        observed: format!("{}", out),
                        payload: json!({"op": op, "operands": idx.iter().map(|k| sp.g[*k].text.clone()).collect::<Vec<_>>() }),
                    },
                    None,
                ),
            }
        },
    );
    acc.merge(part);
}

pub fn run(ctx: &Ctx) -> i32 {
    let sp = Space::new(ctx.thorough());
    let total = sp.total();
    let sp_ref = &sp;
    let acc = par::sweep(
        total,
        4096,
        |_| setup_interp(&sp_ref.g),
        |it: &mut Interp, acc: &mut Acc, i| {
            let (op, idx) = sp_ref.case(i);
            let text = case_text(op, &idx);
            let out = it.eval(&text);
            let args: Vec<RNum> = idx.iter().map(|k| sp_ref.g[*k].val).collect();
            acc.evals += 1;
            acc.outcome_class(&format!("{}:{}", op, match &out { Outcome::Val(Obs::Bool(b)) => format!("{}", b), o => o.class() }));
            acc.distinct_hash(hash_of(&(op, &out, args.iter().map(|a| a.is_exact()).collect::<Vec<_>>())));
            if i % (total / 7 + 1) == 0 {
                acc.sample(i, json!({"case": case_pretty(&sp_ref.g, op, &idx), "observed": format!("{}", out)}));
            }
            match judge(op, &args, &out) {
                Verdict::Ok => {}
                Verdict::Excluded(why) => acc.exclude(why, || format!("{} => {}", case_pretty(&sp_ref.g, op, &idx), out)),
                Verdict::Bad(why) => acc.mismatch(
                    Mismatch {
                        idx: i,
                        case: case_pretty(&sp_ref.g, op, &idx),
                        expected: why,
                        observed: format!("{}", out),
                        payload: json!({"op":op,"operands": idx.iter().map(|k| sp_ref.g[*k].text.clone()).collect::<Vec<_>>() }),
                    },
                    None,
                ),
            }
        },
    );
    let mut acc = acc;
    history_phase(&sp, &mut acc);
    let scale = if ctx.thorough() { 300 } else { 100 };
    scale_phase(&sp, &mut acc, scale);
    report::finish(
        acc,
        RunInfo {
            id: "C10".into(),
            tier: ctx.tier_name(),
            seed: ctx.seed,
            exhaustive: true,
            rule: format!("{:?} and {:?} on all pairs and all ordered triples of G, eqv? on all pairs; plus every history (failing call of any operation with a non-number operand after numbers of either exactness) x (any operation on any pair of a 10-number sub-grid) on one interpreter; every predicate and max / min on operand lists of every length 3..N (all the same value, two values alternating, one operand of another kind first / in the middle / last; 10 values); |G|={} (literals and computed values of every representation); distinct = distinct (operation, outcome, exactness pattern)", PREDS, EXTREMA, sp.g.len()),
            bounds: json!({"grid": sp.g.len(), "pairs": sp.n2 + sp.ne, "triples": sp.n3, "scale_ladder_max_operands": scale}),
            assumptions: vec!["reference order: cross-multiplication on i128 rationals; exact vs inexact after conversion to binary32".into()],
            wall_s: ctx.elapsed(),
            extra: json!({}),
        },
    )
}

pub fn replay(p: &serde_json::Value) -> bool {
    let g = grid(true);
    let mut it = Interp::new().unwrap();
    let op = p["op"].as_str().unwrap();
    let ops: Vec<String> = p["operands"].as_array().unwrap().iter().map(|x| x.as_str().unwrap().to_string()).collect();
    let args: Vec<RNum> = ops.iter().map(|t| g.iter().find(|x| &x.text == t).expect("grid text").val).collect();
    let text = format!("({} {})", op, ops.join(" "));
    if let Some(poison) = p["after"].as_str() {
        println!("{} => {}", poison, it.eval(poison));
    }
    let out = it.eval(&text);
    println!("{} => {}", text, out);
    match judge(op, &args, &out) {
        Verdict::Bad(w) => {
            println!("{}", w);
            true
        }
        _ => false,
    }
}

//! C07 — no input can crash the interpreter.
//! E-sweep in supervised worker processes: all strings up to a length, all token sequences up to a
//! length, all single-token mutations of the corpus (examples, test macros, bundled libraries) as
//! program text and as library source, exotic characters, invalid UTF-8 / directory files.
//! Oracle: value or reported error, never a panic/abort; sanity forms still correct afterwards.
use crate::drive::{on_fresh_thread_with_stack, panic_class, Interp, Obs, Outcome};

fn on_fresh_thread<T: Send + 'static>(f: impl FnOnce() -> T + Send + 'static) -> T {
    on_fresh_thread_with_stack(32 << 20, f)
}
use crate::report::{self, hash_of, Acc, Mismatch, RunInfo};
use crate::supervise::{self, run_sharded};
use crate::Ctx;
use serde_json::{json, Value as J};
use std::collections::{BTreeMap, HashSet};

pub const ALPHABET: &[char] = &['(', ')', '\'', '"', ';', '|', '#', '\\', '.', '+', '-', '0', '1', '/', 'e', 'a', 't', 'x', ' ', '\n'];

pub const VOCAB: &[&str] = &[
    "(", ")", "'", ".", "#(", "define", "lambda", "if", "set!", "quote", "define-syntax", "syntax-rules", "import", "define-library", "export", "begin", "let", "let*", "cond", "else", "=>",
    "case", "and", "or", "car", "cons", "+", "/", "vector-ref", "apply", "list", "map", "x", "0", "-1", "2147483647", "-2147483648", "2147483648", "1/2", "1/0", "1/", "1e", "1e400", "\"\"",
    "#\\a", "...", "(scheme base)", "_",
];
/// reduced vocabulary for the longest sequences
pub const VOCAB_SMALL: &[&str] = &["(", ")", "'", ".", "#(", "lambda", "if", "define", "let", "car", "apply", "x", "0", "1/", "...", "else"];

pub const EXOTIC: &[char] = &['\u{0}', '\u{7f}', '\u{a0}', '\u{2028}', '\u{feff}', 'λ', '\u{1F600}', '\u{301}', '(', ')', '"', '#', '\\', 'a'];

const MUTATION_TOKENS: &[&str] = &["(", ")", "'", ".", "#(", "x", "0", "\"", "define", "lambda", "...", "=>"];

/// every procedure exported by (scheme base) / (scheme write)
pub const BUILTINS: &[&str] = &[
    "apply", "car", "cdr", "eqv?", "eq?", "cons", "boolean?", "char?", "number?", "string?", "symbol?", "pair?", "procedure?", "vector?", "boolean=?", "not", "+", "-", "*", "/", "=", "<", "<=", ">",
    ">=", "abs", "min", "max", "sqrt", "exp", "ln", "log", "sin", "cos", "tan", "asin", "acos", "atan", "atan2", "floor", "ceiling", "exact", "floor-quotient", "floor-remainder", "newline", "vector",
    "make-vector", "vector-length", "vector-ref", "vector-set!", "caar", "cadr", "cdar", "cddr", "caaar", "caadr", "cadar", "caddr", "cdaar", "cdadr", "cddar", "cdddr", "list", "make-list", "null?",
    "append", "memq", "memv", "map", "for-each", "fold-left", "fold-right", "list-tail", "list-ref", "last-pair", "head", "atom?", "equal?", "list?", "display",
];
/// boundary argument values
pub const ARGS: &[&str] = &[
    "-1", "0", "1", "3", "2147483647", "-2147483648", "1/2", "-7/2", "-2147483648/3", "2147483647/2", "1/2147483647", "(/ 0. 0.)", "(/ 1. 0.)", "(- (/ 1. 0.))",
    // long values (messages quote their operands): multi-byte characters at every byte offset parity
    "\"aéééééééééééééééééééééééééééééééééééééééééééééééé\"", "\"éééééééééééééééééééééééééééééééééééééééééééééééééé\"", "'(1 2 3 4 5 6 7 8 9 10 11 12 13 14 15 16 17 18 19 20 21 22 23 24 25 26 27 28 29 30 λλλλλλλλλλ)", "'|ééééééééééééééééééééééééééééééééééééééééééééééééééééééééééééééééé|", "1.5", "-0.0", "1e38", "\"\"", "\"s\"", "#\\a", "'a", "'||", "'()", "'(1 2)", "'(1 . 2)", "'((1) (2))", "(vector)", "(vector 1 2)", "'#(1)",
    "car", "(lambda (p) p)", "(lambda (p q) (list p q))", "#t", "#f",
];

fn n_builtin_calls(thorough: bool) -> u64 {
    let a = ARGS.len() as u64;
    let per = 1 + a + a * a + if thorough { a * a * a } else { 0 };
    BUILTINS.len() as u64 * per
}

fn builtin_call(mut i: u64, thorough: bool) -> Option<String> {
    let a = ARGS.len() as u64;
    let per = 1 + a + a * a + if thorough { a * a * a } else { 0 };
    let f = BUILTINS[(i / per) as usize];
    i %= per;
    let args: Vec<&str> = if i == 0 {
        vec![]
    } else if i < 1 + a {
        vec![ARGS[(i - 1) as usize]]
    } else if i < 1 + a + a * a {
        let k = i - 1 - a;
        vec![ARGS[(k / a) as usize], ARGS[(k % a) as usize]]
    } else {
        let k = i - 1 - a - a * a;
        vec![ARGS[(k / (a * a)) as usize], ARGS[((k / a) % a) as usize], ARGS[(k % a) as usize]]
    };
    // allocating 2^31 elements is resource exhaustion by request, outside the claim
    if (f == "make-vector" || f == "make-list") && args.first().map(|x| *x == "2147483647").unwrap_or(false) {
        return None;
    }
    Some(format!("({} {})", f, args.join(" ")))
}

/// families of erroneous inputs repeated in the ladder cases (rotating within a family)
pub const LADDERS: &[&[&str]] = &[
    &["(let)", "(when)", "(cond)", "(case)", "(let* 1)", "(let ((a)) a)"],
    &["(car 5)", "(undefined 1)", "(vector-ref (vector) 0)", "((lambda (a) a))", "(5 5)", "(/ 1 0)"],
    &[")", "(", "\"abc", "#", "(a . )", "'", "1/", "#\\"],
    &["(list (list (list (car 5))))", "(map car '(1 2))", "(let ((a 1)) (cond ((car a) 1)))", "(apply car '(1 2))", "(for-each (lambda (x) (when)) '(1))"],
    &["(define-syntax)", "(define-syntax m)", "(define-syntax m (syntax-rules))", "(define-syntax m (syntax-rules () ((m a) a))) (m)", "(define-syntax m 5)", "(import (no such library))", "(define-library)"],
    &["(vector-ref '#(1 2) 5)", "(display)", "(list-tail '(1) 3)", "(caddr '(1))", "(apply + 1)", "(max 'a)", "(string? 1 2)"],
];
pub const LADDER_LEN: usize = 400;

pub fn escape_texts() -> Vec<String> {
    let mut out = vec![];
    let hex = ["", "0", "41", "3bb", "D800", "dfff", "DBFF", "FFFE", "10FFFF", "110000", "FFFFFFFF", "FFFFFFFFF", "100000000", "g", "4g", "-1", " 41"];
    for h in hex {
        for term in [";", "", " ;"] {
            out.push(format!("\"\\x{}{}\"", h, term));
            out.push(format!("\"a\\x{}{}b\"", h, term));
            out.push(format!("'|\\x{}{}|", h, term));
            out.push(format!("#\\x{}{}", h, term));
        }
    }
    for e in ["a", "b", "t", "n", "r", "0", "q", "\\", "\"", "|", "x", "u", "U", " ", "\n", "\t"] {
        out.push(format!("\"\\{}\"", e));
        out.push(format!("\"\\{}", e));
        out.push(format!("'|\\{}|", e));
    }
    // the empty symbol and other values whose printed form is empty or needs bars, where messages quote them
    for v in ["'||", "(car '||)", "(vector-ref '|| 0)", "('|| 1)", "(car '(|| a))", "(car (car '(|| a)))", "(+ 1 '||)", "(car \"\")", "(car '|a b|)", "(car '|1|)", "(apply car '(||))", "(|| 1)", "(define || 1)", "(car (vector '||))"] {
        out.push(v.to_string());
    }
    // message-length ladder: errors whose message quotes a value of every length up to 300, made
    // of multi-byte characters at both byte parities (a message cut at a byte offset shows here)
    for k in 1..=300usize {
        let e = "é".repeat(k);
        let l = "λ".repeat(k);
        out.push(format!("(car \"{}\")", e));
        out.push(format!("(car \"a{}\")", e));
        out.push(format!("((lambda (x) x) \"a\" \"{}\" 2)", e));
        out.push(format!("((lambda (x) x) \"{}\" 2)", l));
        out.push(format!("(vector-ref (vector) '|{}|)", l));
        out.push(format!("({}{} 1)", if k % 2 == 0 { "a" } else { "" }, e));
        out.push(format!("(vector-ref '({}) 0)", (1..=k).map(|i| i.to_string()).collect::<Vec<_>>().join(" ")));
        out.push(format!("((lambda (a b) a) {})", (1..=k + 2).map(|i| i.to_string()).collect::<Vec<_>>().join(" ")));
    }
    for c in ["#\\space", "#\\newline", "#\\tab", "#\\nul", "#\\null", "#\\alarm", "#\\delete", "#\\escape", "#\\return", "#\\backspace", "#\\", "#\\λ", "#\\xyz", "#\\(", "#\\#", "#\\\\"] {
        out.push(c.to_string());
        out.push(format!("(list {} 1)", c));
    }
    out
}

pub const SANITY: &[(&str, &str)] = &[
    ("(let ((sanity-v (make-vector 3 7))) (if (< 2 (vector-length sanity-v)) (cddr (quote (1 2 3 4))) 0))", "(3 4)"),
    ("((lambda (sanity-k . sanity-r) (- sanity-k 1)) 43 0)", "42"),
    ("(when (< 1 2) (cdr (quote (1 2))))", "(2)"),
];

fn corpus_files() -> Vec<(String, String)> {
    let mut out = vec![];
    let mut paths: Vec<std::path::PathBuf> = vec![];
    for dir in ["/repo/examples", "/repo/tests/test_macros"] {
        if let Ok(rd) = std::fs::read_dir(dir) {
            for e in rd.flatten() {
                paths.push(e.path());
            }
        }
    }
    for f in ["/repo/src/parser/grammar.sld", "/repo/src/interpreter/library/include/scheme/base.sld", "/repo/src/interpreter/library/include/scheme/write.sld"] {
        paths.push(f.into());
    }
    paths.sort();
    for p in paths {
        if let Ok(t) = std::fs::read_to_string(&p) {
            out.push((p.to_string_lossy().to_string(), t));
        }
    }
    for (k, t) in MACRO_CORPUS.iter().enumerate() {
        out.push((format!("harness:macro-corpus-{}", k), t.to_string()));
    }
    out
}

/// the harness's own valid program: macros whose templates combine pattern variables of several
/// ellipses (a token-level mutation makes the matched sequences unequal, empty or misnested)
pub const MACRO_CORPUS: &[&str] = &[
    "(define-syntax zip (syntax-rules () ((zip (a ...) (b ...)) '((a b) ...))))\n(zip (1 2 3) (4 5 6))\n",
    "(define-syntax rot (syntax-rules () ((rot (a b ...) ...) '((b ... a) ...))))\n(rot (1 2 3) (4 5 6) (7 8 9))\n",
    "(define-syntax my-let (syntax-rules () ((my-let ((n v) ...) body ...) ((lambda (n ...) body ...) v ...))))\n(my-let ((p 1) (q 2)) (list p q))\n",
    "(define-syntax two (syntax-rules (sep) ((two (a ...) sep (b ...)) (list (list a ...) (list b ...) (list (list a b) ...)))))\n(two (1 2) sep (3 4))\n",
    "(define-syntax flat (syntax-rules () ((flat (a ...) ...) '(a ... ...)) ((flat . r) 'other)))\n(flat (1 2) (3) ())\n",
    "(define-syntax def-const (syntax-rules () ((def-const n v) (define n v))))\n(def-const k 5)\n(list k)\n(define (uses a) (def-const local a) (list local k))\n(uses 1)\n",
    "(define-syntax def-macro (syntax-rules () ((def-macro n v) (define-syntax n (syntax-rules () ((n) v))))))\n(def-macro seven 7)\n(list (seven))\n",
    "(define-syntax my-begin (syntax-rules () ((my-begin e ...) ((lambda () e ...)))))\n(my-begin (define z 1) (set! z (+ z 1)) z)\n",
    "(define-syntax my-if (syntax-rules () ((my-if c a b) (cond (c a) (else b)))))\n(my-if #t (my-if #f 1 2) 3)\n",
    "(define-syntax def-import (syntax-rules () ((def-import l) (import l))))\n(def-import (scheme write))\n(define-syntax q (syntax-rules () ((q x) 'x)))\n(q (a . b))\n",
    "(define-syntax loop-once (syntax-rules () ((loop-once x) (loop-twice x x)) ((loop-once x y) (list x y))))\n(define-syntax loop-twice (syntax-rules () ((loop-twice x y) (loop-once x y))))\n(loop-once 1)\n",
];

/// split a source text into tokens and the separators between them (a crude splitter of the
/// harness's own: parens, quote, strings, comments and atoms)
fn split_tokens(text: &str) -> Vec<String> {
    let cs: Vec<char> = text.chars().collect();
    let mut out = vec![];
    let mut i = 0;
    while i < cs.len() {
        let c = cs[i];
        if c.is_whitespace() {
            i += 1;
        } else if c == ';' {
            while i < cs.len() && cs[i] != '\n' {
                i += 1;
            }
        } else if c == '(' || c == ')' || c == '\'' {
            out.push(c.to_string());
            i += 1;
        } else if c == '"' {
            let mut j = i + 1;
            while j < cs.len() && cs[j] != '"' {
                if cs[j] == '\\' {
                    j += 1;
                }
                j += 1;
            }
            out.push(cs[i..(j + 1).min(cs.len())].iter().collect());
            i = j + 1;
        } else {
            let mut j = i;
            while j < cs.len() && !cs[j].is_whitespace() && cs[j] != '(' && cs[j] != ')' && cs[j] != ';' && cs[j] != '"' {
                j += 1;
            }
            if j > i && cs[j - 1] == '#' && j < cs.len() && cs[j] == '(' {
                j += 1; // #(
            }
            out.push(cs[i..j].iter().collect());
            i = j;
        }
    }
    out
}

/// a mutation is kept as (file, kind, positions) and rendered on demand
#[derive(Clone)]
pub struct Mutation {
    pub file: usize,
    pub kind: u8, // 0 delete, 1 duplicate, 2 swap, 3 replace, 4 delete pair, 5 paren pair
    pub i: usize,
    pub j: usize, // second position, or index of the replacement token
}

impl Mutation {
    pub fn render(&self, toks: &[String]) -> String {
        let mut d: Vec<String> = toks.to_vec();
        match self.kind {
            0 => {
                d.remove(self.i);
            }
            1 => d.insert(self.i, toks[self.i].clone()),
            2 => d.swap(self.i, self.i + 1),
            3 => d[self.i] = MUTATION_TOKENS[self.j].to_string(),
            4 => {
                d.remove(self.j);
                d.remove(self.i);
            }
            _ => {
                d[self.i] = ")".into();
                d[self.j] = "(".into();
            }
        }
        d.join(" ")
    }
}

fn mutations(file_tokens: &[Vec<String>], pairs_on_small: bool) -> Vec<Mutation> {
    // quick tier: replacement by the 4 structural tokens only
    let nrep = if pairs_on_small { MUTATION_TOKENS.len() } else { 4 };
    let mut out = vec![];
    for (fi, toks) in file_tokens.iter().enumerate() {
        for i in 0..toks.len() {
            out.push(Mutation { file: fi, kind: 0, i, j: 0 });
            out.push(Mutation { file: fi, kind: 1, i, j: 0 });
            if i + 1 < toks.len() {
                out.push(Mutation { file: fi, kind: 2, i, j: 0 });
            }
            for (r, t) in MUTATION_TOKENS.iter().enumerate().take(nrep) {
                if *t != toks[i] {
                    out.push(Mutation { file: fi, kind: 3, i, j: r });
                }
            }
        }
        if pairs_on_small && toks.len() <= 60 {
            for i in 0..toks.len() {
                for j in (i + 1)..toks.len() {
                    out.push(Mutation { file: fi, kind: 4, i, j });
                    out.push(Mutation { file: fi, kind: 5, i, j });
                }
            }
        }
    }
    out
}

pub struct Spaces {
    pub max_str: usize,
    pub str_offsets: Vec<u64>,
    pub seq_len_full: usize,
    pub seq_offsets: Vec<u64>,
    pub seq_small_len: usize,
    pub n_seq_small: u64,
    pub files: Vec<(String, String)>,
    pub file_tokens: Vec<Vec<String>>,
    pub muts: Vec<Mutation>,
    pub exotic_offsets: Vec<u64>,
    pub bytes_cases: Vec<(String, Vec<u8>, &'static str)>,
    pub thorough: bool,
}

impl Spaces {
    pub fn new(thorough: bool) -> Spaces {
        let max_str = if thorough { 5 } else { 4 };
        let k = ALPHABET.len() as u64;
        let mut str_offsets = vec![0u64];
        for l in 0..=max_str {
            str_offsets.push(str_offsets[l] + k.pow(l as u32));
        }
        let seq_len_full = if thorough { 4 } else { 3 };
        let v = VOCAB.len() as u64;
        let mut seq_offsets = vec![0u64];
        for l in 1..=seq_len_full {
            seq_offsets.push(seq_offsets[l - 1] + v.pow(l as u32));
        }
        let seq_small_len = if thorough { 5 } else { 4 };
        let n_seq_small = (VOCAB_SMALL.len() as u64).pow(seq_small_len as u32);
        let files = corpus_files();
        // iteration counts of the example programs are capped at 12 so that every mutant terminates
        // quickly (fib-seq 26 runs for seconds); the token structure is unchanged
        let file_tokens: Vec<Vec<String>> = files
            .iter()
            .map(|f| split_tokens(&f.1).into_iter().map(|t| if t.len() >= 2 && t.bytes().all(|b| b.is_ascii_digit()) && t.parse::<u64>().map(|v| v > 12).unwrap_or(true) { "12".to_string() } else { t }).collect())
            .collect();
        let muts = mutations(&file_tokens, thorough);
        let e = EXOTIC.len() as u64;
        let mut exotic_offsets = vec![0u64];
        for l in 1..=3usize {
            exotic_offsets.push(exotic_offsets[l - 1] + e.pow(l as u32));
        }
        // (5) byte-level corruption of a valid program file and of a library file
        let mut bytes_cases = vec![];
        let prog = b"(import (scheme base))\n(define (f a) (car a)) ; c\n(f '(1 2))\n".to_vec();
        let lib = b"(define-library (blib)\n (export bv)\n (import (scheme base))\n (begin (define bv 1)))\n".to_vec();
        for (name, base, kind) in [("program", prog, "eval_file"), ("library", lib, "file-import")] {
            for pos in 0..base.len() {
                for b in [0x80u8, 0xC0, 0xFF, 0xED, 0xA0] {
                    let mut d = base.clone();
                    d[pos] = b;
                    bytes_cases.push((format!("{} byte {} := {:#x}", name, pos, b), d, kind));
                }
            }
        }
        // exotic characters (byte-order mark, NUL, line separators, combining marks, ...) at the
        // places where file reading differs from evaluating a string: start of file, start of a
        // later line, end of file without newline; every pair of them at the start; line-end forms
        let prog_s = "(import (scheme base))\n(define (f a) (car a)) ; c\n(f '(1 2))\n";
        let lib_s = "(define-library (blib)\n (export bv)\n (import (scheme base))\n (begin (define bv 1)))\n";
        for (name, base, kind) in [("program", prog_s, "eval_file"), ("library", lib_s, "file-import")] {
            let second_line = base.find('\n').unwrap() + 1;
            for e in EXOTIC {
                for (where_, at) in [("start of file", 0usize), ("start of line 2", second_line), ("end of file", base.len()), ("before the final newline", base.len() - 1)] {
                    let mut t = base.to_string();
                    t.insert(at, *e);
                    bytes_cases.push((format!("{} with {:?} at {}", name, e, where_), t.into_bytes(), kind));
                }
                for e2 in EXOTIC {
                    bytes_cases.push((format!("{} starting with {:?}{:?}", name, e, e2), format!("{}{}{}", e, e2, base).into_bytes(), kind));
                }
            }
            for (label, t) in [
                ("without final newline", base.trim_end().to_string()),
                ("with CRLF line ends", base.replace('\n', "\r\n")),
                ("with CR line ends", base.replace('\n', "\r")),
                ("empty", String::new()),
                ("only a byte-order mark", "\u{feff}".to_string()),
                ("only newlines", "\n\n\n".to_string()),
                ("ending inside a string", format!("{}\"abc", base)),
                ("ending inside a |symbol|", format!("{}|abc", base)),
                ("ending after a quote mark", format!("{}'", base)),
                ("ending inside a list", format!("{}(car", base)),
                ("ending after #", format!("{}#", base)),
                ("ending after #\\", format!("{}#\\", base)),
            ] {
                bytes_cases.push((format!("{} {}", name, label), t.into_bytes(), kind));
            }
        }
        // histories: many erroneous inputs in a row on ONE interpreter and thread, the sanity forms
        // after every one of them, a new interpreter at the end
        for k in 0..LADDERS.len() {
            bytes_cases.push((format!("ladder of {} x {:?}", LADDER_LEN, LADDERS[k]), vec![k as u8], "ladder"));
        }
        // escape sequences in string / character / symbol tokens, well-formed or not (hex escapes of
        // surrogates and of values beyond U+10FFFF, missing terminators, unknown escape letters)
        for t in escape_texts() {
            bytes_cases.push((format!("escape text {:?}", t), t.into_bytes(), "text"));
        }
        bytes_cases.push(("program path is a directory".into(), vec![], "eval_file-directory"));
        bytes_cases.push(("library path is a directory".into(), vec![], "file-import-directory"));
        bytes_cases.push(("program file missing".into(), vec![], "eval_file-missing"));
        Spaces { max_str, str_offsets, seq_len_full, seq_offsets, seq_small_len, n_seq_small, files, file_tokens, muts, exotic_offsets, bytes_cases, thorough }
    }
    fn n1(&self) -> u64 {
        *self.str_offsets.last().unwrap()
    }
    fn n2(&self) -> u64 {
        *self.seq_offsets.last().unwrap() + self.n_seq_small
    }
    fn n3(&self) -> u64 {
        self.muts.len() as u64 * 2
    }
    fn n4(&self) -> u64 {
        *self.exotic_offsets.last().unwrap()
    }
    fn n5(&self) -> u64 {
        self.bytes_cases.len() as u64
    }
    fn n6(&self) -> u64 {
        n_builtin_calls(self.thorough)
    }
    pub fn total(&self) -> u64 {
        self.n1() + self.n2() + self.n3() + self.n4() + self.n5() + self.n6()
    }
}

fn nth_over<T: Clone>(alphabet: &[T], mut i: u64, len: usize) -> Vec<T> {
    let k = alphabet.len() as u64;
    let mut s = Vec::with_capacity(len);
    for _ in 0..len {
        s.push(alphabet[(i % k) as usize].clone());
        i /= k;
    }
    s.reverse();
    s
}

pub enum CaseInput {
    /// evaluate text on the pooled interpreter (or a fresh one if `fresh`)
    Text { text: String, fresh: bool, space: &'static str },
    /// register the text as the source of library (mutlib) and import it
    Library { text: String, space: &'static str },
    Bytes { label: String, data: Vec<u8>, kind: &'static str },
}

/// the enumeration order is a fixed permutation of the index space (multiplication by a prime
/// modulo the size), so that the expensive corpus cases are spread over all worker shards
pub fn case_input(sp: &Spaces, i: u64) -> CaseInput {
    let total = sp.total();
    let p: u64 = if total % 1_000_003 == 0 { 1 } else { 1_000_003 };
    case_input_raw(sp, ((i as u128 * p as u128) % total as u128) as u64)
}

pub fn case_input_raw(sp: &Spaces, mut i: u64) -> CaseInput {
    if i < sp.n1() {
        let l = sp.str_offsets.iter().rposition(|o| *o <= i).unwrap();
        let s: String = nth_over(ALPHABET, i - sp.str_offsets[l], l).into_iter().collect();
        return CaseInput::Text { text: s, fresh: false, space: "strings" };
    }
    i -= sp.n1();
    if i < sp.n2() {
        let full = *sp.seq_offsets.last().unwrap();
        let toks: Vec<&str> = if i < full {
            let l = sp.seq_offsets.iter().rposition(|o| *o <= i).unwrap() + 1;
            nth_over(VOCAB, i - sp.seq_offsets[l - 1], l)
        } else {
            nth_over(VOCAB_SMALL, i - full, sp.seq_small_len)
        };
        let text = toks.join(" ");
        let fresh = toks.iter().any(|t| *t == "define-syntax" || *t == "set!" || *t == "define" || *t == "import" || *t == "define-library");
        return CaseInput::Text { text, fresh, space: "token-sequences" };
    }
    i -= sp.n2();
    if i < sp.n3() {
        let m = &sp.muts[(i / 2) as usize];
        let text = m.render(&sp.file_tokens[m.file]);
        return if i % 2 == 0 { CaseInput::Text { text, fresh: true, space: "corpus-mutation-as-program" } } else { CaseInput::Library { text, space: "corpus-mutation-as-library" } };
    }
    i -= sp.n3();
    if i < sp.n4() {
        let l = sp.exotic_offsets.iter().rposition(|o| *o <= i).unwrap() + 1;
        let s: String = nth_over(EXOTIC, i - sp.exotic_offsets[l - 1], l).into_iter().collect();
        return CaseInput::Text { text: s, fresh: false, space: "exotic-characters" };
    }
    i -= sp.n4();
    if i >= sp.n5() {
        return match builtin_call(i - sp.n5(), sp.thorough) {
            Some(text) => CaseInput::Text { text, fresh: false, space: "builtin-calls" },
            None => CaseInput::Text { text: "0".into(), fresh: false, space: "builtin-calls-skipped" },
        };
    }
    let (label, data, kind) = &sp.bytes_cases[i as usize];
    CaseInput::Bytes { label: label.clone(), data: data.clone(), kind }
}

pub fn describe(c: &CaseInput) -> String {
    match c {
        CaseInput::Text { text, space, .. } => format!("[{}] {:?}", space, text),
        CaseInput::Library { text, space } => format!("[{}] {:?}", space, text),
        CaseInput::Bytes { label, kind, .. } => format!("[bytes:{}] {}", kind, label),
    }
}

/// the input may legitimately redefine derived forms (define-syntax writes the thread's syntax
/// table): then only the sanity form that uses core forms alone is meaningful
fn sanity(it: &mut Interp, core_only: bool) -> Option<String> {
    for (form, want) in SANITY.iter().filter(|s| !core_only || !(s.0.contains("(let ") || s.0.contains("(when "))) {
        match it.eval(form) {
            Outcome::Val(o) => {
                let s = format!("{}", o);
                if s != *want {
                    return Some(format!("sanity form {} => {} (expected {})", form, s, want));
                }
            }
            o => return Some(format!("sanity form {} => {}", form, o)),
        }
    }
    None
}

pub struct CaseOutcome {
    pub class: String,
    pub detail: String,
    pub bad: Option<String>,
}

fn judge_outcome(o: &Outcome, sanity_fail: Option<String>) -> CaseOutcome {
    let class = o.class();
    let mut bad = None;
    if let Outcome::Panic(m) = o {
        bad = Some(format!("PANIC {}", m));
    }
    if bad.is_none() {
        if let Some(s) = sanity_fail {
            bad = Some(format!("interpreter unusable afterwards: {}", s));
        }
    }
    CaseOutcome { class, detail: format!("{}", o), bad }
}

fn run_on(it: &mut Interp, text: &str) -> CaseOutcome {
    let o = it.eval(text);
    let s = sanity(it, text.contains("define-syntax"));
    judge_outcome(&o, s)
}

fn scratch_dir() -> std::path::PathBuf {
    let d = std::path::PathBuf::from(format!("/verif/target/scratch/c07-{}", std::process::id()));
    let _ = std::fs::create_dir_all(&d);
    d
}

pub fn run_case(pooled: &mut Interp, c: &CaseInput) -> CaseOutcome {
    match c {
        CaseInput::Text { text, fresh: false, .. } => {
            pooled.fresh_frame();
            run_on(pooled, text)
        }
        CaseInput::Text { text, fresh: true, .. } => {
            let t = text.clone();
            on_fresh_thread(move || match Interp::new() {
                Ok(mut it) => run_on(&mut it, &t),
                Err(p) => CaseOutcome { class: "panic:construction".into(), detail: p.clone(), bad: Some(format!("PANIC constructing an interpreter: {}", p)) },
            })
        }
        CaseInput::Library { text, .. } => {
            let t = text.clone();
            on_fresh_thread(move || {
                use ruschm::interpreter::LibraryFactory;
                use ruschm::library_name;
                use ruschm::parser::LibraryName;
                let mut it = match Interp::new() {
                    Ok(it) => it,
                    Err(p) => return CaseOutcome { class: "panic:construction".into(), detail: p.clone(), bad: Some(format!("PANIC constructing an interpreter: {}", p)) },
                };
                // the mutated text as a registered library source (whatever library name it defines
                // is looked for under (scheme base) / (scheme write) / (mutlib) in turn)
                let mut outcome = Outcome::Val(Obs::NoValue);
                for name in [library_name!("scheme", "base"), library_name!("scheme", "write"), library_name!("mutlib")] {
                    let r = crate::drive::guarded(|| LibraryFactory::<f32>::from_char_stream(&name, t.chars()));
                    match r {
                        Err(p) => {
                            outcome = Outcome::Panic(p);
                            break;
                        }
                        Ok(Err(e)) => outcome = Outcome::Err(crate::drive::classify(&e), e.location),
                        Ok(Ok(f)) => {
                            let mut it2 = Interp::bare().unwrap();
                            it2.it.register_library_factory(f);
                            let n: Vec<String> = name.0.iter().map(|e| format!("{}", e)).collect();
                            outcome = it2.eval(&format!("(import ({}))", n.join(" ")));
                            if matches!(outcome, Outcome::Panic(_)) {
                                break;
                            }
                        }
                    }
                }
                let s = sanity(&mut it, t.contains("define-syntax"));
                judge_outcome(&outcome, s)
            })
        }
        CaseInput::Bytes { data, kind, .. } => {
            let dir = scratch_dir();
            let data = data.clone();
            let kind = *kind;
            on_fresh_thread(move || {
                let mut it = Interp::bare().unwrap();
                let prog = dir.join("prog.scm");
                if kind == "ladder" {
                    let family = LADDERS[data[0] as usize];
                    let mut it = match Interp::new() {
                        Ok(it) => it,
                        Err(p) => return CaseOutcome { class: "panic:construction".into(), detail: p.clone(), bad: Some(format!("PANIC constructing an interpreter: {}", p)) },
                    };
                    for k in 0..LADDER_LEN {
                        let text = family[k % family.len()];
                        let o = it.eval(text);
                        let s = sanity(&mut it, text.contains("define-syntax"));
                        let mut c = judge_outcome(&o, s);
                        if let Some(b) = c.bad.take() {
                            c.bad = Some(format!("[erroneous input no. {}: {}] {}", k + 1, text, b));
                            return c;
                        }
                    }
                    // other interpreters of the same thread: one made now must work
                    return match Interp::new() {
                        Ok(mut i2) => judge_outcome(&Outcome::Val(Obs::NoValue), sanity(&mut i2, false)),
                        Err(p) => CaseOutcome { class: "panic:construction".into(), detail: p.clone(), bad: Some(format!("PANIC constructing an interpreter after the ladder: {}", p)) },
                    };
                }
                if kind == "text" {
                    let text = String::from_utf8_lossy(&data).to_string();
                    return match Interp::new() {
                        Ok(mut it) => run_on(&mut it, &text),
                        Err(p) => CaseOutcome { class: "panic:construction".into(), detail: p.clone(), bad: Some(format!("PANIC constructing an interpreter: {}", p)) },
                    };
                }
                let o = match kind {
                    "eval_file" => {
                        std::fs::write(&prog, &data).unwrap();
                        let p = prog.clone();
                        eval_file(&mut it, p)
                    }
                    "eval_file-directory" => eval_file(&mut it, dir.clone()),
                    "eval_file-missing" => eval_file(&mut it, dir.join("no-such-file.scm")),
                    "file-import" => {
                        std::fs::write(dir.join("blib.sld"), &data).unwrap();
                        std::fs::write(&prog, b"(import (scheme base) (blib))\nbv\n").unwrap();
                        let o = eval_file(&mut it, prog.clone());
                        let _ = std::fs::remove_file(dir.join("blib.sld"));
                        o
                    }
                    _ => {
                        // library path is a directory: <dir>/dlib.sld/
                        let _ = std::fs::create_dir_all(dir.join("dlib.sld"));
                        std::fs::write(&prog, b"(import (scheme base) (dlib))\n1\n").unwrap();
                        eval_file(&mut it, prog.clone())
                    }
                };
                // a fresh standard interpreter must still work in this process
                let s = Interp::new().ok().and_then(|mut i2| sanity(&mut i2, false));
                judge_outcome(&o, s)
            })
        }
    }
}

fn eval_file(it: &mut Interp, p: std::path::PathBuf) -> Outcome {
    let i = &mut it.it;
    match crate::drive::guarded(|| i.eval_file(p)) {
        Ok(Ok(Some(v))) => Outcome::Val(crate::drive::obs_of(&v)),
        Ok(Ok(None)) => Outcome::Val(Obs::NoValue),
        Ok(Err(e)) => Outcome::Err(crate::drive::classify(&e), e.location),
        Err(p) => Outcome::Panic(p),
    }
}

/// worker process entry: `mc worker C07 <tier> <start> <end> <every>`
pub fn worker(args: &[String]) {
    let thorough = args[1] == "thorough";
    let (start, end, every): (u64, u64, bool) = (args[2].parse().unwrap(), args[3].parse().unwrap(), args[4] == "1");
    supervise::worker_init(if thorough { 3000 } else { 1500 }, 6 << 30);
    let h = std::thread::Builder::new()
        .stack_size(48 << 20)
        .spawn(move || {
            let sp = Spaces::new(thorough);
            let mut it = Interp::must_new();
            let mut evals = 0u64;
            let mut hist: BTreeMap<String, u64> = BTreeMap::new();
            let mut spaces: BTreeMap<String, u64> = BTreeMap::new();
            let mut viol: Vec<J> = vec![];
            let mut distinct: HashSet<u64> = HashSet::new();
            let mut samples: Vec<J> = vec![];
            let mut from = start;
            let mut flush = |upto: u64, evals: &mut u64, hist: &mut BTreeMap<String, u64>, spaces: &mut BTreeMap<String, u64>, viol: &mut Vec<J>, distinct: &mut HashSet<u64>, samples: &mut Vec<J>| {
                let j = json!({"from": from, "upto": upto, "evals": *evals, "hist": hist, "spaces": spaces, "viol": viol, "distinct": distinct.iter().collect::<Vec<_>>(), "samples": samples});
                supervise::emit(&format!("P {} {}", upto, j));
                from = upto + 1;
                *evals = 0;
                hist.clear();
                spaces.clear();
                viol.clear();
                distinct.clear();
                samples.clear();
            };
            for i in start..end {
                if every {
                    supervise::emit(&format!("S {}", i));
                }
                let c = case_input(&sp, i);
                supervise::case_begin(i);
                let o = run_case(&mut it, &c);
                supervise::case_end();
                evals += 1;
                *hist.entry(o.class.clone()).or_insert(0) += 1;
                let space = describe(&c);
                let space = space[1..space.find(']').unwrap_or(1)].to_string();
                *spaces.entry(space).or_insert(0) += 1;
                distinct.insert(hash_of(&o.detail));
                if i % 100_003 == 17 || (i % 1009 == 5 && !matches!(c, CaseInput::Text { fresh: false, .. })) {
                    samples.push(json!({"index": i, "case": describe(&c), "outcome": o.detail}));
                }
                if let Some(b) = o.bad {
                    if viol.len() < 50 {
                        viol.push(json!({"idx": i, "case": describe(&c), "observed": b, "class": o.class}));
                    } else {
                        *hist.entry(format!("VIOLATION-NOT-LISTED:{}", o.class)).or_insert(0) += 1;
                    }
                }
                if (i + 1 - start) % supervise::BLOCK == 0 || every {
                    flush(i, &mut evals, &mut hist, &mut spaces, &mut viol, &mut distinct, &mut samples);
                }
            }
            if end > start {
                flush(end - 1, &mut evals, &mut hist, &mut spaces, &mut viol, &mut distinct, &mut samples);
            }
            supervise::emit("END");
        })
        .unwrap();
    let _ = h.join();
    let _ = std::fs::remove_dir_all(scratch_dir());
}

/// known-finding recognition: (entry id) for a panic outcome, by message class and input facet
fn known_for(case: &str, observed: &str) -> Option<&'static str> {
    let _ = (case, observed);
    None
}

pub fn run(ctx: &Ctx) -> i32 {
    let sp = Spaces::new(ctx.thorough());
    let total = sp.total();
    let res = run_sharded(vec!["C07".into(), ctx.tier_name()], total, crate::par::nthreads());
    let mut acc = Acc::new();
    // coverage accounting: every index must be covered exactly once by a record or be a death
    let mut covered = vec![0u8; total as usize];
    for r in &res.records {
        let (f, u) = (r["from"].as_u64().unwrap_or(0), r["upto"].as_u64().unwrap_or(0));
        let fresh_cover = (f..=u).all(|k| covered[k as usize] == 0);
        for k in f..=u {
            covered[k as usize] = covered[k as usize].saturating_add(1);
        }
        if !fresh_cover {
            // a block re-run after a worker death: its first pass (if any) was discarded with the
            // dead worker, so a second record for the same indices is a machinery error
            acc.notes.push(format!("MACHINERY: indices {}..={} reported twice", f, u));
        }
    }
    for d in &res.deaths {
        covered[d.index as usize] = covered[d.index as usize].saturating_add(1);
    }
    let uncovered = covered.iter().filter(|c| **c == 0).count();
    let doubled = covered.iter().filter(|c| **c > 1).count();
    for r in &res.records {
        acc.evals += r["evals"].as_u64().unwrap_or(0);
        if let Some(h) = r["hist"].as_object() {
            for (k, v) in h {
                *acc.hist.entry(k.clone()).or_insert(0) += v.as_u64().unwrap_or(0);
            }
        }
        if let Some(h) = r["spaces"].as_object() {
            for (k, v) in h {
                acc.count(&format!("space:{}", k), v.as_u64().unwrap_or(0));
            }
        }
        for d in r["distinct"].as_array().cloned().unwrap_or_default() {
            acc.distinct.insert(d.as_u64().unwrap_or(0));
        }
        for s in r["samples"].as_array().cloned().unwrap_or_default() {
            acc.sample(s["index"].as_u64().unwrap_or(0), s);
        }
        for v in r["viol"].as_array().cloned().unwrap_or_default() {
            let case = v["case"].as_str().unwrap_or("").to_string();
            let observed = v["observed"].as_str().unwrap_or("").to_string();
            let idx = v["idx"].as_u64().unwrap_or(0);
            let kind = if observed.starts_with("PANIC") { format!("panic:{}", panic_class(&observed)) } else { "unusable-afterwards".to_string() };
            acc.mismatch(
                Mismatch { idx, case: format!("{} {}", kind, case), expected: ": a value or a reported error; sanity forms correct afterwards".into(), observed: observed.clone(), payload: json!({"index": idx, "tier": ctx.tier_name()}) },
                known_for(&case, &observed),
            );
        }
    }
    // worker deaths: stack exhaustion, memory exhaustion and non-termination are outside the claim
    for d in &res.deaths {
        let c = case_input(&sp, d.index);
        match d.class.as_str() {
            "stack-exhaustion" | "memory-exhaustion" | "timeout" | "signal-SIGKILL" => acc.exclude(&format!("worker death: {}", d.class), || describe(&c)),
            other => acc.mismatch(
                Mismatch { idx: d.index, case: format!("abort:{} {}", other, describe(&c)), expected: ": a value or a reported error".into(), observed: format!("process died: {} {}", d.class, d.detail), payload: json!({"index": d.index, "tier": ctx.tier_name()}) },
                None,
            ),
        }
        acc.evals += 1;
    }
    for e in &res.machinery_errors {
        acc.notes.push(format!("MACHINERY: {}", e));
    }
    {
        let mut k = 0usize;
        let mut shown = 0;
        while k < covered.len() && shown < 8 {
            if covered[k] == 0 {
                let st = k;
                while k < covered.len() && covered[k] == 0 {
                    k += 1;
                }
                acc.notes.push(format!("MACHINERY: uncovered indices {}..{}", st, k));
                shown += 1;
            } else {
                k += 1;
            }
        }
    }
    acc.count("indices-uncovered", uncovered as u64);
    acc.count("indices-covered-twice", doubled as u64);
    let machinery_failed = uncovered > 0 || doubled > 0;
    let code = report::finish(
        acc,
        RunInfo {
            id: "C07".into(),
            tier: ctx.tier_name(),
            seed: ctx.seed,
            exhaustive: true,
            rule: format!("(1) every string of length <= {} over {:?}; (2) every sequence of <= {} tokens over a {}-token vocabulary (keywords, builtins of every arity class, boundary literals) and every sequence of {} tokens over a {}-token vocabulary; (3) every single-token mutation (delete, duplicate, swap, replace by each of {} tokens; quick tier: the first 4) of {} corpus files, as program text and as registered library source; (4) every string of <= 3 characters over {} exotic/structural characters; (5) every single-byte corruption (5 invalid bytes) of a program file and of a library file, directory and missing paths; (6) every procedure exported by the standard libraries applied to every tuple of 0-2 (thorough 0-3) arguments from {} boundary values; each followed by 3 sanity forms on the same interpreter; distinct = distinct outcomes", sp.max_str, ALPHABET, sp.seq_len_full, VOCAB.len(), sp.seq_small_len, VOCAB_SMALL.len(), MUTATION_TOKENS.len(), sp.files.len(), EXOTIC.len(), ARGS.len()),
            bounds: json!({"strings": sp.n1(), "token_sequences": sp.n2(), "corpus_mutation_cases": sp.n3(), "exotic": sp.n4(), "byte_cases": sp.n5(), "builtin_calls": sp.n6(), "total": total, "worker_deaths": res.deaths.len()}),
            assumptions: vec!["stack exhaustion, memory exhaustion and non-termination (3 s watchdog) end the worker process, are classified by the supervisor and listed under excluded; they are outside the property's claim".into()],
            wall_s: ctx.elapsed(),
            extra: json!({"sanity_forms": SANITY.iter().map(|s| s.0).collect::<Vec<_>>(), "corpus": sp.files.iter().map(|f| f.0.clone()).collect::<Vec<_>>()}),
        },
    );
    if machinery_failed {
        eprintln!("MACHINERY-ERROR: some shards were not completed");
        // violations already found and printed stand; without any, an incomplete sweep is no verdict
        if code == 0 {
            return 2;
        }
    }
    code
}

pub fn replay(p: &serde_json::Value) -> bool {
    let thorough = p["tier"] == "thorough";
    let sp = Spaces::new(thorough);
    let i = p["index"].as_u64().unwrap();
    let c = case_input(&sp, i);
    let mut it = Interp::new().unwrap();
    let o = run_case(&mut it, &c);
    println!("{}\n=> {}", describe(&c), o.detail);
    if let Some(b) = &o.bad {
        println!("{}", b);
    }
    o.bad.is_some()
}

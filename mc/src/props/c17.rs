//! C17 — running a program file: output, diagnostics and exit status.
//! E-sweep through the built binary: every sequence of forms up to a length from a menu (displays,
//! definitions, silent expressions, failing forms) x line ends x final newline x working directory,
//! plus missing / directory / non-UTF-8 files. Oracle: refsem's display output before the first
//! failing form, exit status, one diagnostic FILE:LINE:COL MESSAGE located inside the failing form,
//! and agreement with in-process evaluation of the same text.
use crate::drive::{guarded, ErrKind};
use crate::refsem::{Machine, POLICIES};
use crate::report::{self, hash_of, Acc, Mismatch, RunInfo};
use crate::sexp::parse_all;
use crate::{par, Ctx};
use ruschm::interpreter::Interpreter;
use serde_json::json;
use std::process::Command;

pub const DEFAULT_BIN: &str = "/verif/target/repo-bin/debug/ruschm";
/// the built ruschm binary (RUSCHM_BIN overrides the default: frozen copies for long runs)
pub fn bin() -> String {
    std::env::var("RUSCHM_BIN").unwrap_or_else(|_| DEFAULT_BIN.to_string())
}

/// (form text, fails?)
pub const MENU: &[(&str, bool)] = &[
    ("(display 42)", false),
    ("(display 'sym)", false),
    ("(display '(1 (2 three) . 4))", false),
    ("(display \"a string\")", false),
    ("(newline)", false),
    ("(define v 7)", false),
    ("(+ 1 2)", false),
    ("(define (p) (display \"in-p\") (newline))\n(p)\n(p)", false),
    ("(display (let ((a 1))\n           (list a 2)))", false),
    ("(display \"two  \nlines\t\n \\\" and a third\")", false),
    // numbers are binary32 in the binary exactly as through the library interface
    ("(display (list (= 16777217 16777216.0) (max 16777217 1.0) (/ 1 3.0) (* 1.1 1.1)))", false),
    // a case whose key has an effect: evaluated once, whatever clause matches
    ("(display (case (begin (display \"k\") (+ 1 1)) ((1) 'one) ((2) 'two) (else 'other)))", false),
    ("(car '())", true),
    ("(undefined-procedure 1)", true),
    ("(display\n  (vector-ref (vector 1) 5))", true),
    ("(5 5)", true),
    ("(/ 1 0)", true),
    ("((lambda (a) a))", true),
    ("(vector-set! '#(1) 0 1)", true),
    ("(set! nope 1)", true),
    ("(display (cadr '(1)))", true),
    ("(if)", true),
    // a fault raised inside a procedure of the bundled library
    ("(for-each 5 '(1 2))", true),
    // faults without a position of their own inside derived forms
    ("(let ((q 1))\n  (car q))", true),
    ("(cond (#t (vector-ref (vector) 1)))", true),
];

/// texts that cannot be read as a datum; only ever the LAST thing in a file (what matters is how
/// the end of the file is reached)
pub const BROKEN_TAILS: &[&str] = &[",", "\"abc", "(car '(1)", "'", ")", "#(1", "(1 . )", "#", "(", ",@"];

const HEADER: &str = "(import (scheme base) (scheme write))";

/// what precedes each form (after the previous one): layout must not matter
pub const GAPS: &[&str] = &["\n", "\n\n\n", "\n    ", " ; trailing (comment\n\t", "\n;; full line comment )\n"];

pub struct Case {
    pub gap: usize,
    pub forms: Vec<usize>,
    pub crlf: bool,
    pub final_newline: bool,
    pub elsewhere: bool,
    /// index into BROKEN_TAILS appended after the forms
    pub broken: Option<usize>,
}

pub struct Rendered {
    pub text: String,
    /// 1-based ((line, col) of the first character, (line, col) just past the last character) of each form
    pub extents: Vec<((u32, u32), (u32, u32))>,
}

pub fn render(c: &Case) -> Rendered {
    let nl = if c.crlf { "\r\n" } else { "\n" };
    // every other layout starts with two empty lines (a file need not begin with text)
    let lead = if c.gap % 2 == 1 { "\n\n" } else { "" };
    let mut text = format!("{}{}", lead.replace('\n', nl), HEADER);
    let mut extents = vec![];
    // positions are computed on the LF-normalised text (the file reader strips CR)
    let mut norm = format!("{}{}", lead, HEADER);
    let pos_of = |t: &str| {
        let line = t.matches('\n').count() as u32 + 1;
        let col = t.rsplit('\n').next().unwrap_or("").chars().count() as u32 + 1;
        (line, col)
    };
    for (k, f) in c.forms.iter().enumerate() {
        let gap = GAPS[(c.gap + k) % GAPS.len()];
        text.push_str(&gap.replace('\n', nl));
        norm.push_str(gap);
        let src = MENU[*f].0;
        let start = pos_of(&norm);
        text.push_str(&src.replace('\n', nl));
        norm.push_str(src);
        extents.push((start, pos_of(&norm)));
    }
    if let Some(b) = c.broken {
        let gap = GAPS[(c.gap + c.forms.len()) % GAPS.len()];
        text.push_str(&gap.replace('\n', nl));
        norm.push_str(gap);
        let start = pos_of(&norm);
        text.push_str(BROKEN_TAILS[b]);
        norm.push_str(BROKEN_TAILS[b]);
        // a syntax error at the end of the input may be reported where the input ends: the
        // reader terminates every line, so that is column 1 of the line after the last one
        let end = pos_of(&norm);
        extents.push((start, (end.0 + 1, 1)));
    }
    if c.final_newline {
        text.push_str(nl);
    }
    Rendered { text, extents }
}

pub struct Expected {
    pub stdout: String,
    pub failing: Option<usize>,
    pub err: Option<ErrKind>,
}

pub fn expected(c: &Case) -> Expected {
    let mut m = Machine::new(POLICIES[0]);
    for (k, f) in c.forms.iter().enumerate() {
        for sx in parse_all(MENU[*f].0) {
            if let Err(e) = m.eval_top(&sx) {
                return Expected { stdout: m.out.clone(), failing: Some(k), err: Some(e) };
            }
        }
    }
    if c.broken.is_some() {
        return Expected { stdout: m.out.clone(), failing: Some(c.forms.len()), err: Some(ErrKind::Syntax(String::new())) };
    }
    Expected { stdout: m.out.clone(), failing: None, err: None }
}

fn strip_sgr(s: &str) -> String {
    let mut out = String::new();
    let mut it = s.chars().peekable();
    while let Some(c) = it.next() {
        if c == '\u{1b}' {
            if it.peek() == Some(&'[') {
                it.next();
                while let Some(d) = it.next() {
                    if d.is_ascii_alphabetic() {
                        break;
                    }
                }
            }
        } else {
            out.push(c);
        }
    }
    out
}

pub struct RunResult {
    pub stdout: String,
    pub stderr: String,
    pub code: Option<i32>,
}

pub fn run_binary(file_arg: &str, cwd: &std::path::Path) -> Result<RunResult, String> {
    let o = Command::new(bin()).arg(file_arg).current_dir(cwd).output().map_err(|e| format!("spawn: {}", e))?;
    Ok(RunResult { stdout: String::from_utf8_lossy(&o.stdout).to_string(), stderr: strip_sgr(&String::from_utf8_lossy(&o.stderr)), code: o.status.code() })
}

fn scratch(worker: usize) -> std::path::PathBuf {
    std::path::PathBuf::from(format!("/verif/target/scratch/c17-{}-{}", std::process::id(), worker))
}

/// check the diagnostic line: exactly one line `FILE:LINE:COL MESSAGE`; returns (line, col)
fn parse_diag(stderr: &str, file_arg: &str) -> Result<(u32, u32), String> {
    let lines: Vec<&str> = stderr.lines().collect();
    if lines.len() != 1 {
        return Err(format!("expected exactly one diagnostic line, got {}", lines.len()));
    }
    let l = lines[0];
    let rest = l.strip_prefix(file_arg).ok_or_else(|| "diagnostic does not start with the file name".to_string())?;
    let rest = rest.strip_prefix(':').ok_or_else(|| "no :LINE:COL after the file name".to_string())?;
    let mut parts = rest.splitn(3, |c: char| c == ':' || c == ' ');
    let line: u32 = parts.next().and_then(|x| x.parse().ok()).ok_or("bad LINE")?;
    let col: u32 = parts.next().and_then(|x| x.parse().ok()).ok_or("bad COL")?;
    let msg = parts.next().unwrap_or("").trim();
    if msg.is_empty() {
        return Err("empty message".into());
    }
    Ok((line, col))
}

pub fn judge(c: &Case, worker: usize) -> Result<u64, (String, String)> {
    let r = render(c);
    let e = expected(c);
    let dir = scratch(worker);
    let other = dir.join("elsewhere");
    let _ = std::fs::create_dir_all(&other);
    let file = dir.join("prog.scm");
    std::fs::write(&file, r.text.as_bytes()).map_err(|x| ("write".to_string(), x.to_string()))?;
    let (arg, cwd) = if c.elsewhere { (file.to_string_lossy().to_string(), other.clone()) } else { ("prog.scm".to_string(), dir.clone()) };
    let got = run_binary(&arg, &cwd).map_err(|x| ("binary runs".to_string(), x))?;
    let mut problems = vec![];
    if got.stdout != e.stdout {
        problems.push(format!("stdout {:?} (expected {:?})", got.stdout, e.stdout));
    }
    match e.failing {
        None => {
            if got.code != Some(0) {
                problems.push(format!("exit status {:?} (expected 0)", got.code));
            }
            if !got.stderr.is_empty() {
                problems.push(format!("stderr {:?} (expected empty)", got.stderr));
            }
        }
        Some(k) => {
            if got.code == Some(0) || got.code.is_none() {
                problems.push(format!("exit status {:?} (expected non-zero)", got.code));
            }
            let unlocated_ok = k == c.forms.len() && c.broken.is_some() && got.stderr.lines().count() == 1 && got.stderr.starts_with(&format!("{} ", arg)) && got.stderr.trim().len() > arg.len() + 1;
            match parse_diag(&got.stderr, &arg) {
                // a syntax error met at the very end of the input may carry no position
                Err(_) if unlocated_ok => {}
                Err(w) => problems.push(format!("diagnostic {:?}: {}", got.stderr, w)),
                Ok((line, col)) => {
                    // inside the text of the failing form (the implementation reports the position
                    // just past a token, so the end bound is inclusive of one more column)
                    let (a, b) = r.extents[k];
                    if (line, col) < a || (line, col) > (b.0, b.1 + 1) {
                        problems.push(format!("diagnostic position {}:{} outside the failing form {:?}..{:?} ({:?})", line, col, a, b, got.stderr));
                    }
                }
            }
        }
    }
    // differential: in-process evaluation of the same text stops at the same form with the same kind
    let text = r.text.clone();
    let inproc = guarded(move || {
        let mut it = Interpreter::<f32>::default();
        it.eval(text.chars())
    });
    match (&e.err, inproc) {
        (None, Ok(Ok(_))) => {}
        (Some(k), Ok(Err(err))) => {
            let kind = crate::drive::classify(&err);
            let same = match (&kind, k) {
                (ErrKind::Syntax(_), ErrKind::Syntax(_)) if c.broken.is_some() => true,
                (a, b) => a == b,
            };
            if !same {
                problems.push(format!("in-process error kind {:?} (expected {:?})", kind, k));
            }
            let msg = format!("{}", err);
            // (at the very end of the input the two differ legitimately: the file reader terminates
            // the last line, so "#" + end of input is "#" + newline there)
            if !got.stderr.contains(&msg) && c.broken.is_none() {
                problems.push(format!("diagnostic {:?} does not contain the library interface's message {:?}", got.stderr, msg));
            }
        }
        (_, Err(p)) => problems.push(format!("in-process evaluation panicked: {}", p)),
        (exp, Ok(o)) => problems.push(format!("in-process evaluation gave {:?} (reference error {:?})", o.map(|v| v.map(|x| x.to_string())), exp)),
    }
    if problems.is_empty() {
        Ok(hash_of(&(got.stdout, got.code, got.stderr.len() > 0)))
    } else {
        Err((format!("stdout {:?}, exit {}", e.stdout, if e.failing.is_some() { "non-zero with one diagnostic inside the failing form" } else { "0" }), problems.join("; ")))
    }
}

pub fn cases(max_forms: usize) -> Vec<Case> {
    let mut out = vec![];
    let k = MENU.len();
    for len in 0..=max_forms {
        let n = k.pow(len as u32);
        for i in 0..n {
            let mut forms = vec![];
            let mut x = i;
            for _ in 0..len {
                forms.push(x % k);
                x /= k;
            }
            forms.reverse();
            // after the first failing form nothing runs: keep at most one form behind it
            if let Some(p) = forms.iter().position(|f| MENU[*f].1) {
                if forms.len() > p + 2 {
                    continue;
                }
            }
            for variant in 0..8 {
                // all 8 variants for short programs, a rotating pair for the longest
                if len == max_forms && len >= 3 && variant != i % 8 && variant != (i + 3) % 8 {
                    continue;
                }
                out.push(Case { gap: (i + variant) % GAPS.len(), forms: forms.clone(), crlf: variant & 1 != 0, final_newline: variant & 2 != 0, elsewhere: variant & 4 != 0, broken: None });
                // the same program ending in text that cannot be read (all variants for programs
                // of <= 1 form, a rotating variant for 2 forms)
                if forms.iter().all(|f| !MENU[*f].1) && (len <= 1 || (len == 2 && variant == i % 8)) {
                    for b in 0..BROKEN_TAILS.len() {
                        out.push(Case { gap: (i + variant) % GAPS.len(), forms: forms.clone(), crlf: variant & 1 != 0, final_newline: variant & 2 != 0, elsewhere: variant & 4 != 0, broken: Some(b) });
                    }
                }
            }
        }
    }
    out
}

pub fn describe(c: &Case) -> String {
    format!("[{} {} {}{}]\n{}", if c.crlf { "CRLF" } else { "LF" }, if c.final_newline { "final-newline" } else { "no-final-newline" }, if c.elsewhere { "cwd-elsewhere" } else { "cwd=program-dir" }, if c.broken.is_some() { " unreadable-tail" } else { "" }, render(c).text)
}

fn special_cases(acc: &mut Acc) {
    let dir = scratch(9999);
    let _ = std::fs::create_dir_all(&dir);
    let mut check = |name: &str, arg: &str, prep: &dyn Fn()| {
        prep();
        acc.evals += 1;
        match run_binary(arg, &dir) {
            Ok(r) => {
                let ok = r.code.map(|c| c != 0).unwrap_or(false) && r.stdout.is_empty() && r.stderr.lines().count() == 1 && r.stderr.starts_with(arg);
                if !ok {
                    acc.mismatch(
                        Mismatch { idx: u64::MAX - 10, case: format!("[{}] ruschm {}", name, arg), expected: ": non-zero exit status, empty stdout, one diagnostic line starting with the file name".into(), observed: format!("exit {:?} stdout {:?} stderr {:?}", r.code, r.stdout, r.stderr), payload: json!({"special": name}) },
                        None,
                    );
                }
            }
            Err(e) => acc.mismatch(Mismatch { idx: u64::MAX - 10, case: name.into(), expected: "binary runs".into(), observed: e, payload: json!({"special": name}) }, None),
        }
    };
    check("missing-file", "no-such-file.scm", &|| {});
    let d2 = dir.clone();
    check("directory-as-file", "adir", &move || {
        let _ = std::fs::create_dir_all(d2.join("adir"));
    });
    let d3 = dir.clone();
    check("non-utf8-file", "bad.scm", &move || {
        let _ = std::fs::write(d3.join("bad.scm"), b"(import (scheme base))\n(define a \"\xff\xfe\")\n");
    });
    // scale ladders: the failing form's message has every length up to ~700 bytes (values of k
    // characters quoted in it, 1- and 2-byte characters); the failing form sits on line k / after k
    // successful forms. Status, the single FILE:LINE:COL diagnostic and the message of the library
    // interface must be the same at every size.
    let mut ladder: Vec<(String, String, u32)> = vec![];
    for k in 1..=300usize {
        ladder.push((format!("message-length k={} (string)", k), format!("{}\n(car \"{}{}\")\n", HEADER, if k % 2 == 0 { "a" } else { "" }, "é".repeat(k)), 2));
        ladder.push((format!("message-length k={} (list)", k), format!("{}\n(vector-ref '({}) 0)\n", HEADER, (1..=k).map(|i| i.to_string()).collect::<Vec<_>>().join(" ")), 2));
        ladder.push((format!("message-length k={} (arguments)", k), format!("{}\n((lambda (a b) a) {})\n", HEADER, (1..=k + 2).map(|i| i.to_string()).collect::<Vec<_>>().join(" ")), 2));
        ladder.push((format!("line-number k={}", k), format!("{}\n{}(car '())\n", HEADER, "(define filler 1)\n".repeat(k)), k as u32 + 2));
        ladder.push((format!("blank-lines k={}", k), format!("{}\n{}(undefined-procedure 1)\n", HEADER, "\n".repeat(k)), k as u32 + 2));
    }
    for (name, text, line) in ladder {
        acc.evals += 1;
        acc.count("scale ladder (message length / line number)", 1);
        let _ = std::fs::create_dir_all(&dir);
        if std::fs::write(dir.join("ladder.scm"), text.as_bytes()).is_err() {
            continue;
        }
        let t2 = text.clone();
        let inproc = guarded(move || {
            let mut it = Interpreter::<f32>::default();
            it.eval(t2.chars())
        });
        let msg = match inproc {
            Ok(Err(e)) => format!("{}", e),
            other => {
                acc.mismatch(Mismatch { idx: u64::MAX - 11, case: format!("[{}]", name), expected: ": the library interface reports an error".into(), observed: format!("{:?}", other.map(|r| r.map(|v| v.map(|x| x.to_string())).map_err(|e| e.to_string()))), payload: json!({"special": name}) }, None);
                continue;
            }
        };
        match run_binary("ladder.scm", &dir) {
            Ok(r) => {
                let diag = parse_diag(&r.stderr, "ladder.scm");
                let ok = r.code.map(|c| c != 0).unwrap_or(false) && r.stdout.is_empty() && r.stderr.lines().count() == 1 && matches!(diag, Ok((l, _)) if l == line) && r.stderr.contains(&msg);
                if !ok {
                    acc.mismatch(
                        Mismatch { idx: u64::MAX - 11, case: format!("[{}] {}", name, if text.len() > 300 { format!("{} ... ({} bytes)", &text.chars().take(200).collect::<String>(), text.len()) } else { text.clone() }), expected: format!(": non-zero status, empty stdout, one diagnostic ladder.scm:{}:COL with the message {:?}", line, msg), observed: format!("exit {:?} stdout {:?} stderr {:?}", r.code, r.stdout, r.stderr), payload: json!({"special": name}) },
                        None,
                    );
                }
            }
            Err(e) => acc.mismatch(Mismatch { idx: u64::MAX - 11, case: name.clone(), expected: "binary runs".into(), observed: e, payload: json!({"special": name}) }, None),
        }
    }
    // output-size ladder: what a program displays arrives complete and in order whatever its
    // size and line structure - sizes around the usual buffer boundaries (2^k - 1, 2^k, 2^k + 1)
    let mut sizes: Vec<usize> = vec![1, 2, 3, 100, 1000, 3000, 10_000, 100_000];
    for k in 6..=16 {
        let p = 1usize << k;
        sizes.extend([p - 1, p, p + 1]);
    }
    for k in sizes {
        let body = "y".repeat(k);
        for (shape, program, want) in [
            ("one line", format!("(display \"{}\")", body), body.clone()),
            ("a line break, then k characters", format!("(display \"ab\ncd{}\")", body), format!("ab\ncd{}", body)),
            ("k characters, then a line break", format!("(display \"{}\nz\")", body), format!("{}\nz", body)),
            ("two displays and a newline", format!("(display \"{}\")(newline)(display '({} . end))", body, body), format!("{}\n({} . end)", body, body)),
        ] {
            acc.evals += 1;
            acc.count("output-size ladder", 1);
            let _ = std::fs::create_dir_all(&dir);
            if std::fs::write(dir.join("out.scm"), format!("{}\n{}\n", HEADER, program).as_bytes()).is_err() {
                continue;
            }
            match run_binary("out.scm", &dir) {
                Ok(r) => {
                    if r.stdout != want || r.code != Some(0) || !r.stderr.is_empty() {
                        let cut = |s: &str| if s.len() > 120 { format!("{}...({} bytes)...{}", &s[..50], s.len(), &s[s.len() - 50..]) } else { s.to_string() };
                        acc.mismatch(Mismatch { idx: u64::MAX - 12, case: format!("[output of {} bytes, {}]", k, shape), expected: format!(": stdout {:?}, status 0, empty stderr", cut(&want)), observed: format!("exit {:?} stdout {:?} stderr {:?}", r.code, cut(&r.stdout), cut(&r.stderr)), payload: json!({"special": "output-size"}) }, None);
                    }
                }
                Err(e) => acc.mismatch(Mismatch { idx: u64::MAX - 12, case: format!("[output of {} bytes, {}]", k, shape), expected: "binary runs".into(), observed: e, payload: json!({"special": "output-size"}) }, None),
            }
        }
    }
    let _ = std::fs::remove_dir_all(&dir);
}

pub fn run(ctx: &Ctx) -> i32 {
    if !std::path::Path::new(&bin()).exists() {
        eprintln!("MACHINERY-ERROR: {} not built", bin());
        return 2;
    }
    let max_forms = if ctx.thorough() { 4 } else { 3 };
    let cs = cases(max_forms);
    let total = cs.len() as u64;
    let csr = &cs;
    let silencer = crate::drive::StdoutSilencer::new();
    let mut acc = par::sweep(
        total,
        8,
        |w| w,
        |w, acc: &mut Acc, i| {
            let c = &csr[i as usize];
            acc.evals += 1;
            acc.count(&format!("forms={}", c.forms.len()), 1);
            match judge(c, *w) {
                Ok(h) => {
                    acc.distinct_hash(h);
                    acc.outcome_class(if c.forms.iter().any(|f| MENU[*f].1) { "failing program" } else { "successful program" });
                    if i % (total / 5 + 1) == 2 {
                        acc.sample(i, json!({"program": describe(c)}));
                    }
                }
                Err((e, o)) => acc.mismatch(Mismatch { idx: i, case: describe(c), expected: format!(": {}", e), observed: o, payload: json!({"gap": c.gap, "forms": c.forms, "crlf": c.crlf, "final_newline": c.final_newline, "elsewhere": c.elsewhere, "broken": c.broken}) }, None),
            }
        },
    );
    special_cases(&mut acc);
    drop(silencer);
    for w in 0..64 {
        let _ = std::fs::remove_dir_all(scratch(w));
    }
    report::finish(
        acc,
        RunInfo {
            id: "C17".into(),
            tier: ctx.tier_name(),
            seed: ctx.seed,
            exhaustive: true,
            rule: format!("every program file = import line + every sequence of <= {} forms from a menu of {} (displays of an integer / symbol / improper list / string, newline, definition, silent expression, a procedure that displays called twice, a multi-line form, 9 failing forms) x LF/CRLF x final newline or none x working directory = program directory or elsewhere x 5 rotating inter-form layouts (newline, blank lines, indentation, trailing comment + tab, full-line comment) (the longest programs get a rotating pair of the 8 variants), run through the built binary; every program without a failing form of <= 2 forms additionally ending in each of {} texts that cannot be read (stray unquote, unterminated string / list / vector, dangling quote, stray parenthesis, lone #, ...); plus missing file, directory as file, non-UTF-8 file; output-size ladder: displays of 1 .. 100000 characters around every power of two up to 65537, with and without line breaks, arrive complete; scale ladders: a failing form whose message quotes a value of every length k <= 300 (2-byte characters at both parities, lists, argument lists), the failing form on every line up to 302; distinct = distinct (stdout, status) observations", max_forms, MENU.len(), BROKEN_TAILS.len()),
            bounds: json!({"programs": total, "max_forms": max_forms}),
            assumptions: vec!["refsem's printer for integers, symbols, strings and lists (where the output format is not in question)".into()],
            wall_s: ctx.elapsed(),
            extra: json!({"menu": MENU.iter().map(|m| m.0).collect::<Vec<_>>()}),
        },
    )
}

pub fn replay(p: &serde_json::Value) -> bool {
    if p.get("special").is_some() {
        let mut acc = Acc::new();
        special_cases(&mut acc);
        return acc.n_violations > 0;
    }
    let c = Case {
        gap: p["gap"].as_u64().unwrap_or(0) as usize,
        forms: p["forms"].as_array().unwrap().iter().map(|x| x.as_u64().unwrap() as usize).collect(),
        crlf: p["crlf"].as_bool().unwrap_or(false),
        final_newline: p["final_newline"].as_bool().unwrap_or(true),
        elsewhere: p["elsewhere"].as_bool().unwrap_or(false),
        broken: p["broken"].as_u64().map(|b| b as usize),
    };
    let r = judge(&c, 9998);
    let _ = std::fs::remove_dir_all(scratch(9998));
    match r {
        Ok(_) => false,
        Err((e, o)) => {
            println!("{}\nexpected {}\nobserved {}", describe(&c), e, o);
            true
        }
    }
}

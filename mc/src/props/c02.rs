//! C02 — tail calls run in bounded space.
//! E-sweep + per-iteration state invariant: every composition of tail contexts (up to a depth) x
//! loop shape x iteration count; a native `probe` called once per iteration records the real
//! machine stack depth and the live heap of the thread; neither may grow with the iteration count,
//! and the loop must return the closed-form result.
use crate::drive::{Interp, Obs, Outcome};
use crate::report::{self, hash_of, Acc, Mismatch, RunInfo};
use crate::{par, Ctx};
use ruschm::error::{ErrorData, ToLocated};
use ruschm::interpreter::error::LogicError;
use ruschm::values::{Procedure, Value};
use serde_json::json;
use std::cell::RefCell;

thread_local! {
    /// (stack depth in bytes relative to the first probe, live heap bytes) per probe call
    static SAMPLES: RefCell<Vec<(isize, isize)>> = RefCell::new(Vec::new());
    static BASE: std::cell::Cell<usize> = std::cell::Cell::new(0);
}

const GROWTH_ABORT: isize = 256 << 10;

fn probe_proc() -> Value<f32> {
    let no_parameters = ruschm::parser::ParameterFormals::new_non_located(std::iter::empty(), None);
    Value::Procedure(Procedure::new_builtin_impure("probe".to_string(), no_parameters, |_args, _env| {
        let marker = 0u8;
        let addr = &marker as *const u8 as usize;
        let live = crate::LIVE_BYTES.with(|c| c.get());
        let base = BASE.with(|b| {
            if b.get() == 0 {
                b.set(addr);
            }
            b.get()
        });
        // the stack grows downwards
        let depth = base as isize - addr as isize;
        SAMPLES.with(|s| s.borrow_mut().push((depth, live)));
        if depth > GROWTH_ABORT {
            // stop a growing loop long before the host stack overflows
            return Err(ErrorData::from(LogicError::Extension("probe: stack grows with the iteration count".to_string())).no_locate());
        }
        Ok(Value::Void)
    }))
}

/// tail contexts: a template with CALL (the recursive call) — or, for the `=>` receivers, MCALL
/// (the call with its counter argument replaced by the received value m)
pub const CONTEXTS: &[(&str, &str)] = &[
    ("body", "CALL"),
    ("if-consequent", "(if #t CALL 0)"),
    ("if-alternative", "(if #f 0 CALL)"),
    ("begin", "(begin 0 CALL)"),
    ("let", "(let ((t 1)) CALL)"),
    ("let*", "(let* ((t 1) (t2 t)) CALL)"),
    ("cond-clause", "(cond (#t CALL))"),
    ("cond-else", "(cond (#f 0) (else CALL))"),
    ("cond-=>", "(cond ((- n 1) => (lambda (m) MCALL)))"),
    ("case-clause", "(case 1 ((1) CALL))"),
    ("case-else", "(case 2 ((1) 0) (else CALL))"),
    ("case-=>", "(case (- n 1) ((-5) 0) (else => (lambda (m) MCALL)))"),
    ("and", "(and #t CALL)"),
    ("or", "(or #f CALL)"),
    ("when", "(when #t CALL)"),
    ("unless", "(unless #f CALL)"),
    ("if-one-armed", "(if #t CALL)"),
    ("and-3", "(and #t 1 CALL)"),
    ("or-3", "(or #f #f CALL)"),
    // binding forms that bind a PROCEDURE (a closure over the loop's frame, made every round)
    ("let-binding-a-lambda", "(let ((h (lambda () n))) CALL)"),
    ("let*-binding-a-lambda", "(let* ((t 1) (h (lambda () (list t n)))) CALL)"),
    // a parallel let whose bindings exchange the loop variables (twice: the identity)
    ("let-parallel-swap-twice", "(let ((n acc) (acc n)) (let ((n acc) (acc n)) CALL))"),
    // three sequentially dependent bindings
    ("let*-3-dependent", "(let* ((t n) (t2 t) (t3 (- t2 t))) CALL)"),
    // user-defined syntax-rules macros whose expansion puts the call in a tail position
    ("user-macro-if", "(my-if #t CALL 0)"),
    ("user-macro-body", "(my-unless #f 0 CALL)"),
    ("user-macro-recursive", "(my-or #f #f CALL)"),
    ("apply", "APPLYCALL"),
    // apply with the first operand given individually (in front of the list)
    ("apply-leading-argument", "APPLYSPREAD"),
];

/// loop shapes: (name, definitions with BODY placeholders, start call, call templates)
pub struct Shape {
    pub name: &'static str,
    /// definitions; BODYi is replaced by (probe) + termination test + context[call_i]
    pub defs: &'static str,
    pub start: &'static str,
    /// per body: (operator expression, argument list with NEXT for the decremented counter)
    pub calls: &'static [(&'static str, &'static str)],
    /// closed form of the result after N iterations
    pub result: fn(u32) -> i64,
}

fn ident(n: u32) -> i64 {
    n as i64
}
/// la adds 1, lb adds 3, alternately, la first
/// the start call and every round make exactly one closure
fn makes(n: u32) -> i64 {
    n as i64 + 1
}
/// up adds 1, down adds 10, alternately, up first
fn up_down(n: u32) -> i64 {
    ((n + 1) / 2) as i64 + 10 * (n / 2) as i64
}
fn alternating(n: u32) -> i64 {
    ((n + 1) / 2) as i64 + 3 * (n / 2) as i64
}

pub const SHAPES: &[Shape] = &[
    Shape { name: "self", defs: "(define (loop n acc) BODY0)", start: "(loop N 0)", calls: &[("loop", "NEXT (+ acc 1)")], result: ident },
    Shape { name: "mutual-2", defs: "(define (la n acc) BODY0) (define (lb n acc) BODY1)", start: "(la N 0)", calls: &[("lb", "NEXT (+ acc 1)"), ("la", "NEXT (+ acc 1)")], result: ident },
    Shape {
        name: "mutual-3",
        defs: "(define (la n acc) BODY0) (define (lb n acc) BODY1) (define (lc n acc) BODY2)",
        start: "(la N 0)",
        calls: &[("lb", "NEXT (+ acc 1)"), ("lc", "NEXT (+ acc 1)"), ("la", "NEXT (+ acc 1)")], result: ident },
    Shape { name: "procedure-parameter", defs: "(define (loop f n acc) BODY0)", start: "(loop loop N 0)", calls: &[("f", "f NEXT (+ acc 1)")], result: ident },
    Shape { name: "variadic", defs: "(define (loop n . r) (define acc (car r)) BODY0)", start: "(loop N 0 'x 'y)", calls: &[("loop", "NEXT (+ acc 1) 'x 'y")], result: ident },
    // every round runs a NEW closure of the same lambda whose captured k differs: the result is
    // right only if the trampoline really switches to the closure the tail call produced
    Shape { name: "closure-with-captured-state", defs: "(define (make-step k) (lambda (n acc) BODY0))", start: "((make-step 0) N 0)", calls: &[("(make-step (+ k 1))", "NEXT (+ k 1)")], result: ident },
    // the two procedures call each other through identically named PARAMETERS: the operator of every
    // tail call is the same identifier, bound to a different procedure in every other frame
    Shape {
        name: "mutual-through-same-named-parameters",
        defs: "(define (la self other n acc) BODY0) (define (lb self other n acc) BODY1)",
        start: "(la la lb N 0)",
        calls: &[("other", "other self NEXT (+ acc 1)"), ("other", "other self NEXT (+ acc 3)")],
        result: alternating,
    },
    // two closures of ONE lambda (made by one maker, different captured step) hand control to each
    // other through identically named parameters
    Shape {
        name: "sibling-closures-through-parameters",
        defs: "(define (make-player step) (lambda (self other n acc) BODY0)) (define pa (make-player 1)) (define pb (make-player 3))",
        start: "(pa pa pb N 0)",
        calls: &[("other", "other self NEXT (+ acc step)")],
        result: alternating,
    },
    // the operator of the tail call has an effect (the maker counts its calls): it is evaluated
    // exactly once per round; the loop's value is that count
    Shape {
        name: "counting-operator",
        defs: "(define made 0) (define (make-counted) (set! made (+ made 1)) (lambda (n acc) BODY0))",
        start: "(+ (* 0 ((make-counted) N 0)) made)",
        calls: &[("(make-counted)", "NEXT (+ acc 1)")],
        result: makes,
    },
    // the loop runs through a global variable that every round re-assigns before its tail call
    Shape {
        name: "through-an-assigned-variable",
        defs: "(define step #f) (define (up n acc) (set! step down) BODY0) (define (down n acc) (set! step up) BODY1) (set! step up)",
        start: "(step N 0)",
        calls: &[("step", "NEXT (+ acc 1)"), ("step", "NEXT (+ acc 10)")],
        result: up_down,
    },
    Shape { name: "closure-returned", defs: "(define (make-step) (lambda (n acc) BODY0))", start: "((make-step) N 0)", calls: &[("(make-step)", "NEXT (+ acc 1)")], result: ident },
];

/// nest the contexts around the recursive call; `next` is the expression for the decremented
/// counter (inside a `=>` receiver it is the received value m)
fn build(shape: &Shape, k: usize, ctxs: &[usize], next: &str) -> String {
    let (op, args) = shape.calls[k];
    if ctxs.is_empty() {
        return format!("({} {})", op, args.replace("NEXT", next));
    }
    let (name, tpl) = CONTEXTS[ctxs[0]];
    match name {
        "cond-=>" | "case-=>" => tpl.replace("(- n 1)", next).replace("MCALL", &build(shape, k, &ctxs[1..], "m")),
        "apply-leading-argument" => {
            // (apply OP FIRST (list REST...)); the arguments are written NEXT then one more operand
            let a = args.replace("NEXT", next);
            let parts = crate::sexp::parse_all(&a);
            let first = parts.first().map(|x| x.to_string()).unwrap_or_default();
            let rest: Vec<String> = parts.iter().skip(1).map(|x| x.to_string()).collect();
            if ctxs.len() == 1 {
                format!("(apply {} {} (list {}))", op, first, rest.join(" "))
            } else {
                format!("(apply (lambda (z) {}) 0 '())", build(shape, k, &ctxs[1..], next))
            }
        }
        "apply" => {
            if ctxs.len() == 1 {
                format!("(apply {} (list {}))", op, args.replace("NEXT", next))
            } else {
                // the procedure handed to apply is a thunk whose body continues the nesting
                format!("(apply (lambda () {}) '())", build(shape, k, &ctxs[1..], next))
            }
        }
        _ => tpl.replace("CALL", &build(shape, k, &ctxs[1..], next)),
    }
}

fn body(shape: &Shape, k: usize, ctxs: &[usize]) -> String {
    format!("(probe) (if (= n 0) acc {})", build(shape, k, ctxs, "(- n 1)"))
}

pub const USER_MACROS: &str = "(define-syntax my-if (syntax-rules () ((my-if c a b) (cond (c a) (else b)))))
(define-syntax my-unless (syntax-rules () ((my-unless c e ...) (if c #f (begin e ...)))))
(define-syntax my-or (syntax-rules () ((my-or) #f) ((my-or e) e) ((my-or e r ...) (let ((t e)) (if t t (my-or r ...))))))";

pub fn program(shape: &Shape, ctxs: &[usize], n: u32) -> (Vec<String>, String) {
    let mut defs = format!("{}\n{}", USER_MACROS, shape.defs);
    for k in 0..shape.calls.len() {
        defs = defs.replace(&format!("BODY{}", k), &body(shape, k, ctxs));
    }
    let forms: Vec<String> = crate::sexp::parse_all(&defs).iter().map(|f| f.to_string()).collect();
    (forms, shape.start.replace('N', &n.to_string()))
}

pub struct LoopResult {
    pub outcome: Outcome,
    pub samples: usize,
    pub stack_first_half: isize,
    pub stack_second_half: isize,
    pub heap_first_half: isize,
    pub heap_second_half: isize,
}

/// forms that fail in different ways (inside nested non-tail calls, in a tail call, while being
/// expanded); a history of them precedes the loop in the "after-failures" cases
pub const FAILING: &[&str] = &["(+ 1 (car 5))", "(list (list (vector-ref (vector) 0)))", "(undefined-procedure 1)", "(let)", "(cond)", "(fdeep 40)", "(car (cdr (list 1)))", "(when)"];
const FDEEP: &str = "(define (fdeep n) (if (= n 0) (car 'bottom) (+ 1 (fdeep (- n 1)))))";

pub fn run_loop(it: &mut Interp, shape: &Shape, ctxs: &[usize], n: u32, failures_before: u32) -> LoopResult {
    it.fresh_frame();
    if failures_before > 0 {
        let _ = it.eval(FDEEP);
        for k in 0..failures_before {
            let o = it.eval(FAILING[k as usize % FAILING.len()]);
            if matches!(o, Outcome::Val(_)) {
                crate::drive::impl_fail(&format!("the erroneous form {} is accepted: {}", FAILING[k as usize % FAILING.len()], o));
            }
        }
    }
    let (defs, start) = program(shape, ctxs, n);
    run_forms(it, &defs, &start, n)
}

/// definitions, then the start call under the probe
pub fn run_forms(it: &mut Interp, defs: &[String], start: &str, n: u32) -> LoopResult {
    for d in defs {
        let o = it.eval(d);
        if !matches!(o, Outcome::Val(_)) {
            return LoopResult { outcome: o, samples: 0, stack_first_half: 0, stack_second_half: 0, heap_first_half: 0, heap_second_half: 0 };
        }
    }
    SAMPLES.with(|s| {
        let mut v = s.borrow_mut();
        v.clear();
        v.reserve(n as usize + 16);
    });
    BASE.with(|b| b.set(0));
    let outcome = it.eval(start);
    SAMPLES.with(|s| {
        let v = s.borrow();
        let k = v.len();
        // iteration 0 is the start call from the top level; compare (1 ..= k/2] with (k/2 .. k]
        let half = k / 2;
        let m = |r: std::ops::Range<usize>, f: fn(&(isize, isize)) -> isize| v[r].iter().map(f).max().unwrap_or(0);
        let lo = 1.min(k);
        LoopResult {
            outcome,
            samples: k,
            stack_first_half: m(lo..half.max(lo), |x| x.0),
            stack_second_half: m(half.max(lo)..k, |x| x.0),
            heap_first_half: m(lo..half.max(lo), |x| x.1),
            heap_second_half: m(half.max(lo)..k, |x| x.1),
        }
    })
}

pub enum Verdict {
    Ok(u64),
    Bad(String, String, Option<&'static str>),
}

pub fn judge(r: &LoopResult, n: u32, expected: i64, ctx_names: &[&str]) -> Verdict {
    let mut problems = vec![];
    let result_ok = matches!(&r.outcome, Outcome::Val(Obs::Int(v)) if *v as i64 == expected);
    if !result_ok {
        problems.push(format!("result {} (expected {})", r.outcome, expected));
    }
    if r.samples != n as usize + 1 && result_ok {
        problems.push(format!("{} probe calls (expected {})", r.samples, n + 1));
    }
    let stack_growth = r.stack_second_half - r.stack_first_half;
    let heap_growth = r.heap_second_half - r.heap_first_half;
    if stack_growth > 0 {
        problems.push(format!("machine stack grows: max depth {} B in the first half of the iterations, {} B in the second", r.stack_first_half, r.stack_second_half));
    }
    if heap_growth > 256 {
        problems.push(format!("live heap grows: max {} B in the first half of the iterations, {} B in the second", r.heap_first_half, r.heap_second_half));
    }
    if problems.is_empty() {
        return Verdict::Ok(hash_of(&(r.stack_first_half, r.heap_second_half - r.heap_first_half)));
    }
    // defect model of the known finding: a tail call through `apply` re-enters the evaluator, so
    // the host stack grows linearly; the result (when the stack suffices) is right, the heap flat
    // (the frames pending on the host stack also keep their heap alive)
    let _ = heap_growth;
    let known = if (ctx_names.contains(&"apply") || ctx_names.contains(&"apply-leading-argument")) && stack_growth > 0 && (result_ok || format!("{}", r.outcome).contains("Extension")) { Some("apply-in-tail-position-uses-host-stack") } else { None };
    Verdict::Bad(": constant stack and heap per iteration, closed-form result".into(), problems.join("; "), known)
}

/// Scale ladder: the tail call behind W clauses / operands / body forms / bindings and inside D
/// directly nested conditionals, binding forms and bodies, for every W and D up to the bound (a
/// trampoline that gives up beyond some nesting depth, or a derived form whose long expansions are
/// handled differently, shows here). (family, template builder)
pub const SCALE_FAMILIES: &[&str] = &["if-nest", "if-nest-alternative", "cond-clause-k", "cond-else-after-k", "case-clause-k", "and-k", "or-k", "begin-k", "when-body-k", "let*-k-bindings", "let-k-bindings", "let-nest", "when-nest", "cond-nest", "mixed-nest"];

pub fn scale_context(family: &str, w: usize, call: &str) -> String {
    let rep = |s: &str, k: usize| s.repeat(k);
    match family {
        "if-nest" => format!("{}{}{}", rep("(if #t ", w), call, rep(" 0)", w)),
        "if-nest-alternative" => format!("{}{}{}", rep("(if #f 0 ", w), call, rep(")", w)),
        "cond-clause-k" => format!("(cond {}(#t {}))", rep("(#f 0) ", w), call),
        "cond-else-after-k" => format!("(cond {}(else {}))", rep("(#f 0) ", w), call),
        "case-clause-k" => format!("(case {} {}(({}) {}))", w, (0..w).map(|i| format!("(({}) 0) ", i)).collect::<String>(), w, call),
        "and-k" => format!("(and {}{})", rep("#t ", w), call),
        "or-k" => format!("(or {}{})", rep("#f ", w), call),
        "begin-k" => format!("(begin {}{})", rep("0 ", w), call),
        "when-body-k" => format!("(when #t {}{})", rep("0 ", w), call),
        "let*-k-bindings" => format!("(let* ((t0 n) {}) {})", (1..=w).map(|i| format!("(t{} t{})", i, i - 1)).collect::<Vec<_>>().join(" "), call),
        "let-k-bindings" => format!("(let ({}) {})", (0..=w).map(|i| format!("(t{} n)", i)).collect::<Vec<_>>().join(" "), call),
        "let-nest" => format!("{}{}{}", rep("(let ((t n)) ", w), call, rep(")", w)),
        "when-nest" => format!("{}{}{}", rep("(when #t ", w), call, rep(")", w)),
        "cond-nest" => format!("{}{}{}", rep("(cond (#f 0) (else ", w), call, rep("))", w)),
        _ => {
            let opens = ["(if #t ", "(begin 0 ", "(let ((t 1)) ", "(cond (#t ", "(and #t ", "(when #t ", "(or #f "];
            let closes = [" 0)", ")", ")", "))", ")", ")", ")"];
            let mut s = String::new();
            for i in 0..w {
                s.push_str(opens[i % opens.len()]);
            }
            s.push_str(call);
            for i in (0..w).rev() {
                s.push_str(closes[i % closes.len()]);
            }
            s
        }
    }
}

/// (definitions, start) of the scale-ladder loop: shape 0 = self loop, 1 = a new closure of the same lambda per round
pub fn scale_program(family: &str, w: usize, shape: usize, n: u32) -> (Vec<String>, String) {
    if shape == 0 {
        (vec![format!("(define (loop n acc) (probe) (if (= n 0) acc {}))", scale_context(family, w, "(loop (- n 1) (+ acc 1))"))], format!("(loop {} 0)", n))
    } else {
        (vec![format!("(define (make-step) (lambda (n acc) (probe) (if (= n 0) acc {})))", scale_context(family, w, "((make-step) (- n 1) (+ acc 1))"))], format!("((make-step) {} 0)", n))
    }
}

fn scale_phase(max_w: usize) -> Acc {
    let mut cs: Vec<(usize, usize, usize)> = vec![];
    for (fi, f) in SCALE_FAMILIES.iter().enumerate() {
        // nested forms are bounded by the depth the evaluator's own recursion allows on a 2 GB... keep them moderate
        let top = if f.contains("nest") { max_w.min(150) } else { max_w };
        for w in 2..=top {
            cs.push((fi, w, w % 2));
        }
    }
    let csr = &cs;
    par::sweep(
        cs.len() as u64,
        4,
        |_| {
            let it = Interp::must_new();
            it.it.env.define("probe".to_string(), probe_proc());
            it
        },
        |it, acc: &mut Acc, i| {
            let (fi, w, shape) = csr[i as usize];
            let n = 200u32;
            let (defs, start) = scale_program(SCALE_FAMILIES[fi], w, shape, n);
            it.fresh_frame();
            let r = run_forms(it, &defs, &start, n);
            acc.evals += 1;
            acc.transitions += r.samples as u64;
            acc.count(&format!("scale ladder: {}", SCALE_FAMILIES[fi]), 1);
            match judge(&r, n, n as i64, &[]) {
                Verdict::Ok(h) => acc.distinct_hash(hash_of(&(h, fi, w / 16))),
                Verdict::Bad(e, o, _) => acc.mismatch(
                    Mismatch { idx: 50_000_000 + i, case: format!("[scale: {} width/depth {}] {}\n{}", SCALE_FAMILIES[fi], w, defs.join("\n"), start), expected: e, observed: o, payload: json!({"kind": "scale", "family": SCALE_FAMILIES[fi], "width": w, "shape": shape, "n": n}) },
                    None,
                ),
            }
        },
    )
}

pub fn cases(max_depth: usize) -> Vec<(usize, Vec<usize>, u32, u32)> {
    let mut comps: Vec<Vec<usize>> = vec![];
    let mut level: Vec<Vec<usize>> = vec![vec![]];
    for _ in 0..max_depth {
        let mut next = vec![];
        for c in &level {
            for k in 0..CONTEXTS.len() {
                let mut d = c.clone();
                d.push(k);
                next.push(d);
            }
        }
        comps.extend(next.iter().cloned());
        level = next;
    }
    let mut out = vec![];
    for (si, _) in SHAPES.iter().enumerate() {
        for c in &comps {
            // the long run for every single context, a shorter one for the compositions
            let long = if c.len() == 1 { 20_000 } else { 3_000 };
            for n in [64u32, long] {
                out.push((si, c.clone(), n, 0));
            }
            // the same loop after a history of failed evaluations on the same interpreter / thread
            if c.len() == 1 {
                for f in [300u32, 3000] {
                    out.push((si, c.clone(), 3000, f));
                }
            }
        }
    }
    out
}

pub fn run(ctx: &Ctx) -> i32 {
    let depth = if ctx.thorough() { 3 } else { 2 };
    let cs = cases(depth);
    let total = cs.len() as u64;
    let csr = &cs;
    let acc = par::sweep(
        total,
        4,
        |_| {
            let it = Interp::must_new();
            it.it.env.define("probe".to_string(), probe_proc());
            it
        },
        |it, acc: &mut Acc, i| {
            let (si, ctxs, n, fails) = &csr[i as usize];
            let shape = &SHAPES[*si];
            let names: Vec<&str> = ctxs.iter().map(|c| CONTEXTS[*c].0).collect();
            let r = run_loop(it, shape, ctxs, *n, *fails);
            if *fails > 0 {
                acc.count(&format!("after-failures={}", fails), 1);
            }
            acc.evals += 1;
            acc.transitions += r.samples as u64;
            acc.count(&format!("shape={}", shape.name), 1);
            acc.outcome_class(&r.outcome.class());
            if i % (total / 6 + 1) == 4 {
                let (defs, start) = program(shape, ctxs, *n);
                acc.sample(i, json!({"definitions": defs, "start": start, "probe_calls": r.samples, "max_stack_depth": r.stack_second_half, "max_live_heap": r.heap_second_half}));
            }
            match judge(&r, *n, (shape.result)(*n), &names) {
                Verdict::Ok(h) => acc.distinct_hash(hash_of(&(h, shape.name, &names))),
                Verdict::Bad(e, o, known) => {
                    let (defs, start) = program(shape, ctxs, *n);
                    acc.mismatch(
                        Mismatch { idx: i, case: format!("[{} / {}{}] {}\n{}", shape.name, names.join(">"), if *fails > 0 { format!(" / after {} failed evaluations", fails) } else { String::new() }, defs.join("\n"), start), expected: e, observed: o, payload: json!({"shape": si, "contexts": ctxs, "n": n, "failures_before": fails}) },
                        known,
                    );
                }
            }
        },
    );
    let mut acc = acc;
    let scale = if ctx.thorough() { 400 } else { 130 };
    acc.merge(scale_phase(scale));
    report::finish(
        acc,
        RunInfo {
            id: "C02".into(),
            tier: ctx.tier_name(),
            seed: ctx.seed,
            exhaustive: true,
            rule: format!("every composition of the {} tail contexts {:?} of length 1..{} x {} loop shapes {:?} x N in {{64, 20000 (single contexts) / 3000 (compositions)}}, every single-context loop also after a history of 300 and 3000 failed evaluations (8 kinds, incl. errors deep inside non-tail recursion and rejected macro uses) on the same interpreter; scale ladder: the tail call behind W clauses / operands / body forms / bindings for every W <= 130 (thorough 400) and inside D directly nested conditionals / binding forms / bodies for every D <= 130 (thorough 150), 15 families, self loop and closure-per-round alternately; every loop body calls a native probe that samples the machine stack depth and the thread's live heap; evaluations = loops, transitions = iterations observed; distinct = distinct (stack depth, heap delta) signatures", CONTEXTS.len(), CONTEXTS.iter().map(|c| c.0).collect::<Vec<_>>(), depth, SHAPES.len(), SHAPES.iter().map(|s| s.name).collect::<Vec<_>>()),
            bounds: json!({"loops": total, "context_depth": depth, "iterations": [64, 3000, 20000], "scale_ladder_max_width": scale}),
            assumptions: vec!["the invariant (no growth between the first and the second half of the iterations, byte-exact for the stack, 256 B slack for the heap) is what extends the claim beyond the executed N".into(), "live heap = bytes allocated minus freed on the evaluating thread (counting global allocator of the harness)".into()],
            wall_s: ctx.elapsed(),
            extra: json!({}),
        },
    )
}

pub fn replay(p: &serde_json::Value) -> bool {
    if p["kind"] == "scale" {
        let (family, w, shape, n) = (p["family"].as_str().unwrap().to_string(), p["width"].as_u64().unwrap() as usize, p["shape"].as_u64().unwrap() as usize, p["n"].as_u64().unwrap() as u32);
        return crate::drive::on_fresh_thread(move || {
            let mut it = Interp::new().unwrap();
            it.it.env.define("probe".to_string(), probe_proc());
            let (defs, start) = scale_program(&family, w, shape, n);
            println!("{}\n{}", defs.join("\n"), start);
            let r = run_forms(&mut it, &defs, &start, n);
            match judge(&r, n, n as i64, &[]) {
                Verdict::Ok(_) => false,
                Verdict::Bad(e, o, _) => {
                    println!("expected {}\nobserved {}", e, o);
                    true
                }
            }
        });
    }
    let si = p["shape"].as_u64().unwrap() as usize;
    let ctxs: Vec<usize> = p["contexts"].as_array().unwrap().iter().map(|x| x.as_u64().unwrap() as usize).collect();
    let n = p["n"].as_u64().unwrap() as u32;
    let fails = p["failures_before"].as_u64().unwrap_or(0) as u32;
    crate::drive::on_fresh_thread(move || {
        let mut it = Interp::new().unwrap();
        it.it.env.define("probe".to_string(), probe_proc());
        let r = run_loop(&mut it, &SHAPES[si], &ctxs, n, fails);
        let names: Vec<&str> = ctxs.iter().map(|c| CONTEXTS[*c].0).collect();
        let (defs, start) = program(&SHAPES[si], &ctxs, n);
        println!("{}\n{}", defs.join("\n"), start);
        match judge(&r, n, (SHAPES[si].result)(n), &names) {
            Verdict::Ok(_) => false,
            Verdict::Bad(e, o, k) => {
                println!("expected {}\nobserved {}", e, o);
                k.is_none()
            }
        }
    })
}

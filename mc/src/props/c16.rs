//! C16 — printed values read back as the same values.
//! E-sweep: float bit patterns (classes in quick, all 2^32 in thorough), boundary integers, ratios,
//! every Unicode scalar value as a character, all short identifiers, and all value trees up to a
//! node count. Oracle: read(display(v)) is structurally equal to v with the same exactness.
use crate::drive::{guarded, obs_of, Interp, Obs, Outcome};
use crate::numgrid::grid;
use crate::reflex::{self, Lexed, Mode, Tok};
use crate::report::{self, hash_of, Acc, Mismatch, RunInfo};
use crate::{par, Ctx};
use ruschm::parser::pair::GenericPair;
use ruschm::parser::{Datum, DatumBody, Lexer, TokenData};
use ruschm::values::{Number, Value, ValueReference};
use serde_json::json;
use std::collections::HashMap;
use std::rc::Rc;

type V = Value<f32>;

/// structural equality, same exactness; mutability of vectors ignored; reals by bits
fn same(a: &Obs, b: &Obs) -> bool {
    match (a, b) {
        (Obs::Vector(_, x), Obs::Vector(_, y)) => x.len() == y.len() && x.iter().zip(y).all(|(p, q)| same(p, q)),
        (Obs::Pair(a1, d1), Obs::Pair(a2, d2)) => same(a1, a2) && same(d1, d2),
        (Obs::Real(x), Obs::Real(y)) => x == y,
        (x, y) => x == y,
    }
}

pub enum Verdict {
    Ok,
    Bad(String, String),
}

/// full path: display text, quoted, through eval
pub fn roundtrip_eval(it: &mut Interp, v: &V) -> Verdict {
    let text = match guarded(|| format!("{}", v)) {
        Ok(t) => t,
        Err(p) => return Verdict::Bad("display panicked".into(), p),
    };
    let want = obs_of(v);
    match it.eval(&format!("'{}", text)) {
        Outcome::Val(got) if same(&want, &got) => Verdict::Ok,
        o => Verdict::Bad(format!("display gives {:?}, which must read back as {}", text, want), format!("{}", o)),
    }
}

/// fast path for atoms: display text -> real lexer -> one token -> Interpreter::read_literal
pub fn roundtrip_atom(env: &Rc<ruschm::environment::Environment<f32>>, v: &V) -> Verdict {
    let text = format!("{}", v);
    let want = obs_of(v);
    let r = guarded(|| {
        let toks: Result<Vec<_>, _> = Lexer::from_char_stream(text.chars()).collect();
        let toks = toks.map_err(|e| format!("lexer error {}", e))?;
        if toks.len() != 1 {
            return Err(format!("{} tokens", toks.len()));
        }
        let datum = match &toks[0].data {
            TokenData::Primitive(p) => Datum { data: DatumBody::Primitive(p.clone()), location: None },
            TokenData::Identifier(s) => Datum { data: DatumBody::Symbol(s.clone()), location: None },
            other => return Err(format!("token {:?}", other)),
        };
        crate::drive::It::read_literal(&datum, env).map_err(|e| format!("read_literal error {}", e))
    });
    match r {
        Ok(Ok(val)) if same(&want, &obs_of(&val)) => Verdict::Ok,
        Ok(Ok(val)) => Verdict::Bad(format!("display gives {:?}, which must read back as {}", text, want), format!("{}", obs_of(&val))),
        Ok(Err(e)) => Verdict::Bad(format!("display gives {:?}, which must read back as {}", text, want), e),
        Err(p) => Verdict::Bad(format!("display gives {:?}", text), format!("PANIC {}", p)),
    }
}

fn real(bits: u32) -> Option<V> {
    let f = f32::from_bits(bits);
    if f.is_finite() {
        Some(Value::Number(Number::Real(f)))
    } else {
        None
    }
}

/// quick float classes: every exponent x sign x the 2^12 high mantissa patterns x low bits {0, 1, all ones}
fn float_class(i: u64) -> u32 {
    let low = (i % 3) as u32;
    let hi = ((i / 3) % 4096) as u32;
    let exp_sign = (i / 3 / 4096) as u32; // 0..512
    let low_bits = match low {
        0 => 0,
        1 => 1,
        _ => 0x7ff,
    };
    (exp_sign << 23) | (hi << 11) | low_bits
}
const N_FLOAT_CLASSES: u64 = 3 * 4096 * 512;

fn boundary_ints() -> Vec<i32> {
    let mut v = vec![];
    for c in [0i64, 1 << 15, -(1 << 15), 1 << 24, -(1 << 24), (1 << 31) - 1, -(1 << 31)] {
        for d in -4096i64..=4096 {
            let x = c + d;
            if x >= i32::MIN as i64 && x <= i32::MAX as i64 {
                v.push(x as i32);
            }
        }
    }
    v.sort();
    v.dedup();
    v
}

fn gcd(a: i64, b: i64) -> i64 {
    if b == 0 {
        a.abs()
    } else {
        gcd(b, a % b)
    }
}

fn ident_alphabet() -> Vec<char> {
    "ab1+-.*/<=>!?:$%_&~^@".chars().collect()
}

/// identifiers of length <= 3 that the reference tokenizer reads as ONE identifier token
fn identifiers() -> Vec<String> {
    let al = ident_alphabet();
    let mut out = vec![];
    let mut cur = vec![String::new()];
    for _ in 0..3 {
        let mut next = vec![];
        for s in &cur {
            for c in &al {
                let mut t = s.clone();
                t.push(*c);
                next.push(t);
            }
        }
        for t in &next {
            if let Lexed::Tokens(toks) = reflex::tokenize(t, Mode::default()) {
                if toks.len() == 1 && matches!(&toks[0], Tok::Ident(n) if n == t) {
                    out.push(t.clone());
                }
            }
        }
        cur = next;
    }
    out
}

fn atom_reps() -> Vec<V> {
    vec![
        Value::Boolean(true),
        Value::Boolean(false),
        Value::Number(Number::Integer(0)),
        Value::Number(Number::Integer(-12)),
        Value::Number(Number::Integer(i32::MIN)),
        Value::Number(Number::Rational(-3, 4)),
        Value::Number(Number::Real(1.5)),
        Value::Number(Number::Real(-0.0)),
        Value::Number(Number::Real(1e-7)),
        Value::Character('a'),
        Value::Symbol("a".into()),
        Value::Symbol("...".into()),
        Value::Symbol("->x".into()),
        Value::Symbol("+".into()),
        // a list that starts with the symbol quote is data like any other: (quote), (quote a b), (quote . a)
        Value::Symbol("quote".into()),
    ]
}

fn list_of(items: Vec<V>, tail: V) -> V {
    let mut t = tail;
    for i in items.into_iter().rev() {
        t = Value::Pair(Box::new(GenericPair::Some(i, t)));
    }
    t
}
fn nil() -> V {
    Value::Pair(Box::new(GenericPair::Empty))
}

/// all value trees with exactly n nodes (atoms = 1 node; a container = 1 + its children)
fn trees(n: usize, atoms: &[V]) -> Vec<V> {
    if n == 1 {
        let mut v = atoms.to_vec();
        v.push(nil());
        v.push(Value::Vector(ValueReference::new_mutable(vec![])));
        v.push(Value::Vector(ValueReference::new_immutable(vec![])));
        return v;
    }
    let mut out = vec![];
    for s in seqs(n - 1, 3, atoms) {
        if s.is_empty() {
            continue;
        }
        out.push(list_of(s.clone(), nil()));
        out.push(Value::Vector(ValueReference::new_mutable(s.clone())));
        out.push(Value::Vector(ValueReference::new_immutable(s.clone())));
        if s.len() >= 2 {
            let (init, last) = s.split_at(s.len() - 1);
            // a dotted tail that is not a list (atoms and vectors, including empty vectors)
            if !matches!(last[0], Value::Pair(_)) {
                out.push(list_of(init.to_vec(), last[0].clone()));
            }
        }
    }
    out
}
fn seqs(n: usize, maxlen: usize, atoms: &[V]) -> Vec<Vec<V>> {
    if n == 0 {
        return vec![vec![]];
    }
    if maxlen == 0 {
        return vec![];
    }
    let small: Vec<V> = atoms.iter().take(6).cloned().collect();
    let mut out = vec![];
    for first in 1..=n {
        for h in trees(first, if first == 1 { atoms } else { &small }) {
            for rest in seqs(n - first, maxlen - 1, &small) {
                let mut s = vec![h.clone()];
                s.extend(rest);
                out.push(s);
            }
        }
    }
    out
}

/// values in which ONE vector object occurs several times (shared, not cyclic): they print like
/// the same structure built from distinct objects
fn shared() -> Vec<V> {
    let mut out = vec![];
    let subs: Vec<V> = vec![
        Value::Vector(ValueReference::new_mutable(vec![Value::Number(Number::Integer(1)), Value::Number(Number::Integer(2))])),
        Value::Vector(ValueReference::new_immutable(vec![Value::Symbol("a".into())])),
        Value::Vector(ValueReference::new_mutable(vec![])),
        Value::Vector(ValueReference::new_mutable(vec![Value::Vector(ValueReference::new_mutable(vec![Value::Character('a')]))])),
    ];
    for sv in &subs {
        let one = Value::Number(Number::Integer(1));
        out.push(Value::Vector(ValueReference::new_mutable(vec![sv.clone(), sv.clone()])));
        out.push(Value::Vector(ValueReference::new_immutable(vec![sv.clone(), sv.clone(), sv.clone()])));
        out.push(list_of(vec![sv.clone(), sv.clone()], nil()));
        out.push(Value::Vector(ValueReference::new_mutable(vec![sv.clone(), list_of(vec![one.clone(), sv.clone()], nil())])));
        out.push(list_of(vec![Value::Vector(ValueReference::new_mutable(vec![sv.clone()])), sv.clone()], sv.clone()));
        out.push(Value::Vector(ValueReference::new_mutable(vec![Value::Vector(ValueReference::new_mutable(vec![sv.clone()])), Value::Vector(ValueReference::new_mutable(vec![sv.clone()]))])));
    }
    out
}

/// long values: lists, dotted lists and vectors of every length 1..=top (distinct elements), long
/// strings and symbols, a long vector as the last element / the tail position of a list
fn long_values(top: usize) -> Vec<V> {
    let int = |i: usize| Value::Number(Number::Integer(i as i32));
    let mut out = vec![];
    for n in 1..=top {
        let items: Vec<V> = (1..=n).map(int).collect();
        out.push(list_of(items.clone(), nil()));
        out.push(list_of(items.clone(), Value::Symbol("end".into())));
        out.push(Value::Vector(ValueReference::new_mutable(items.clone())));
        if n % 5 == 0 {
            out.push(list_of(items.clone(), Value::Vector(ValueReference::new_mutable(items.clone()))));
            out.push(list_of(vec![Value::Symbol("y".repeat(n)), Value::Character('c')], Value::Number(Number::Real(n as f32 + 0.5))));
            out.push(Value::Vector(ValueReference::new_immutable(vec![list_of(items.clone(), int(0)), list_of(items, nil())])));
        }
    }
    out
}

/// single-child nesting chains of the three constructors to the given depth
fn chains(depth: usize) -> Vec<V> {
    let mut cur: Vec<V> = vec![Value::Number(Number::Integer(7)), Value::Symbol("a".into())];
    let mut out = vec![];
    for _ in 0..depth {
        let mut next = vec![];
        for v in &cur {
            next.push(list_of(vec![v.clone()], nil()));
            next.push(list_of(vec![Value::Number(Number::Integer(1))], v.clone()));
            next.push(Value::Vector(ValueReference::new_mutable(vec![v.clone()])));
        }
        out.extend(next.iter().cloned());
        cur = next;
    }
    out
}

pub fn run(ctx: &Ctx) -> i32 {
    let thorough = ctx.thorough();
    // ---- atoms (index space) ----
    let ints = boundary_ints();
    let mut ratios: Vec<(i32, i32)> = vec![];
    for n in -40i64..=40 {
        for d in 2i64..=40 {
            if gcd(n, d) == 1 && n != 0 {
                ratios.push((n as i32, d as i32));
            }
        }
    }
    for (n, d) in [
        (i32::MAX, 2),
        (i32::MIN + 1, 2),
        (1, i32::MAX),
        (-1, i32::MAX),
        (i32::MAX, i32::MAX - 1),
        // the most negative numerator (its magnitude is not an i32)
        (i32::MIN, 3),
        (i32::MIN, 5),
        (i32::MIN, i32::MAX),
        (i32::MIN + 3, 2),
        (i32::MAX - 2, 2),
    ] {
        ratios.push((n, d));
    }
    let idents = identifiers();
    let n_float: u64 = if thorough { 1u64 << 32 } else { N_FLOAT_CLASSES };
    let n_int = ints.len() as u64;
    let n_rat = ratios.len() as u64;
    let n_char: u64 = 0x110000;
    let n_id = idents.len() as u64;
    let total = n_float + n_int + n_rat + n_char + n_id;
    let (ints_r, ratios_r, idents_r) = (&ints, &ratios, &idents);
    let mut acc = par::sweep(
        total,
        1 << 16,
        |_| Interp::must_new(),
        |it, acc: &mut Acc, i| {
            let (v, class): (Option<V>, &str) = if i < n_float {
                (real(if thorough { i as u32 } else { float_class(i) }), "real")
            } else if i < n_float + n_int {
                (Some(Value::Number(Number::Integer(ints_r[(i - n_float) as usize]))), "integer")
            } else if i < n_float + n_int + n_rat {
                ({
                    let (n, d) = ratios_r[(i - n_float - n_int) as usize];
                    Some(Value::Number(Number::Rational(n, d)))
                }, "ratio")
            } else if i < n_float + n_int + n_rat + n_char {
                (char::from_u32((i - n_float - n_int - n_rat) as u32).map(Value::Character), "character")
            } else {
                (Some(Value::Symbol(idents_r[(i - n_float - n_int - n_rat - n_char) as usize].clone())), "symbol")
            };
            let v = match v {
                Some(v) => v,
                None => return, // non-finite real / surrogate code point: not a value of the subset
            };
            acc.evals += 1;
            acc.count(class, 1);
            // every atom through the fast path; additionally through eval for non-floats and every 64th float
            let mut verdicts = vec![roundtrip_atom(&it.it.env, &v)];
            if class != "real" || i % 64 == 0 {
                verdicts.push(roundtrip_eval(it, &v));
                acc.count("through-eval", 1);
            }
            if class != "real" || i % 4099 == 0 {
                acc.distinct_hash(hash_of(&format!("{}", v)));
            }
            if i % (total / 6 + 1) == 11 {
                acc.sample(i, json!({"class": class, "printed": format!("{}", v)}));
            }
            for vd in verdicts {
                if let Verdict::Bad(e, o) = vd {
                    acc.mismatch(
                        Mismatch { idx: i, case: format!("[{}] {}", class, obs_of(&v)), expected: e, observed: o, payload: json!({"class": class, "bits": if let Value::Number(Number::Real(f)) = &v { json!(f.to_bits()) } else { json!(null) }, "printed": format!("{}", v)}) },
                        None,
                    );
                    break;
                }
            }
        },
    );
    // ---- results of the C09 grid (every representation arithmetic produces) ----
    {
        let mut it = Interp::must_new();
        for x in grid(true) {
            if let Ok(Some(v)) = it.eval_raw(&x.text) {
                if let Value::Number(Number::Real(f)) = &v {
                    if !f.is_finite() {
                        continue;
                    }
                }
                acc.evals += 1;
                acc.count("grid-result", 1);
                if let Verdict::Bad(e, o) = roundtrip_eval(&mut it, &v) {
                    acc.mismatch(Mismatch { idx: total, case: format!("[grid] {}", x.text), expected: e, observed: o, payload: json!({"class":"grid","text": x.text}) }, None);
                }
            }
        }
    }
    // ---- trees ----
    let max_nodes = if thorough { 6 } else { 5 };
    let atoms = atom_reps();
    let mut tvals: Vec<V> = vec![];
    for n in 1..=max_nodes {
        tvals.extend(trees(n, &atoms));
    }
    tvals.extend(chains(6));
    tvals.extend(shared());
    let long_top = if ctx.thorough() { 600 } else { 300 };
    tvals.extend(long_values(long_top));
    let ntrees = tvals.len() as u64;
    // Value is !Send (Rc): hand the trees out by index from per-thread regenerated copies
    let tacc = par::sweep(
        ntrees,
        4096,
        |_| {
            let atoms = atom_reps();
            let mut t: Vec<V> = vec![];
            for n in 1..=max_nodes {
                t.extend(trees(n, &atoms));
            }
            t.extend(chains(6));
            t.extend(shared());
            t.extend(long_values(long_top));
            (Interp::must_new(), t)
        },
        |(it, t), acc: &mut Acc, i| {
            let v = &t[i as usize];
            acc.evals += 1;
            acc.count("tree", 1);
            let printed = format!("{}", v);
            acc.distinct_hash(hash_of(&printed));
            if i % (ntrees / 4 + 1) == 5 {
                acc.sample(i, json!({"class": "tree", "printed": printed}));
            }
            // lists print with single blanks and a dot only when improper
            if printed.contains("  ") || printed.contains("( ") || printed.contains(" )") {
                acc.mismatch(Mismatch { idx: i, case: format!("[tree] {}", obs_of(v)), expected: "single blanks between elements".into(), observed: printed.clone(), payload: json!({"class":"tree-format","printed": printed}) }, None);
            }
            if let Verdict::Bad(e, o) = roundtrip_eval(it, v) {
                acc.mismatch(Mismatch { idx: i, case: format!("[tree] {}", obs_of(v)), expected: e, observed: o, payload: json!({"class":"tree","printed": printed}) }, None);
            }
        },
    );
    // injectivity over the tree set: structurally different values print differently
    {
        let mut seen: HashMap<String, Obs> = HashMap::new();
        for v in &tvals {
            let p = format!("{}", v);
            let o = obs_of(v);
            if let Some(prev) = seen.get(&p) {
                if !same(prev, &o) {
                    acc.mismatch(Mismatch { idx: total + 1, case: format!("[injectivity] {} vs {}", prev, o), expected: "distinct values print differently".into(), observed: format!("both print as {:?}", p), payload: json!({"class":"injectivity","printed": p}) }, None);
                }
            } else {
                seen.insert(p, o);
            }
        }
    }
    acc.merge(tacc);
    report::finish(
        acc,
        RunInfo {
            id: "C16".into(),
            tier: ctx.tier_name(),
            seed: ctx.seed,
            exhaustive: true,
            rule: format!("reals: {}; integers within 2^12 of 0, +-2^15, +-2^24, +-2^31; all reduced ratios n/d with |n|<=40, d<=40 plus i32 boundary ratios; every Unicode scalar value as a character; every identifier of length <= 3 over {:?} that is one identifier token; results of the C09 grid; every value tree with <= {} nodes over 15 atom representatives (incl. the symbol quote as a list head) (proper lists, dotted tails, mutable and literal vectors, empty vectors in tails) all single-child nesting chains to depth 6, and values in which one vector object occurs two or three times; distinct = distinct printed texts (floats: a 1/4099 subsample); lists, dotted lists and vectors of every length <= 300 (thorough 600) with distinct elements, long symbols, a long vector in tail position", if thorough { "all 2^32 bit patterns (finite ones judged)".to_string() } else { "every exponent x sign x 4096 high mantissa patterns x low bits {0,1,all ones}".to_string() }, ident_alphabet().iter().collect::<String>(), max_nodes),
            bounds: json!({"reals": n_float, "integers": n_int, "ratios": n_rat, "characters": n_char, "identifiers": n_id, "trees": ntrees, "tree_max_nodes": max_nodes}),
            assumptions: vec!["atoms take the path display -> real Lexer -> Interpreter::read_literal; non-float atoms, every 64th float and all trees additionally go through eval of the quoted text".into()],
            wall_s: ctx.elapsed(),
            extra: json!({}),
        },
    )
}

pub fn replay(p: &serde_json::Value) -> bool {
    let mut it = Interp::new().unwrap();
    if let Some(b) = p["bits"].as_u64() {
        let v = Value::Number(Number::Real(f32::from_bits(b as u32)));
        for vd in [roundtrip_atom(&it.it.env.clone(), &v), roundtrip_eval(&mut it, &v)] {
            if let Verdict::Bad(e, o) = vd {
                println!("{}\nexpected: {}\nobserved: {}", obs_of(&v), e, o);
                return true;
            }
        }
        return false;
    }
    // other classes: the printed text must read back to something that prints identically
    let printed = p["printed"].as_str().unwrap_or("");
    let o = it.eval(&format!("'{}", printed));
    println!("'{} => {}", printed, o);
    match it.eval_raw(&format!("'{}", printed)) {
        Ok(Some(v)) => format!("{}", v) != printed,
        _ => true,
    }
}

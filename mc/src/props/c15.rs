//! C15 — reported error locations point into the form that failed.
//! E-sweep: the C08 fault expressions in every calling context and inside every derived-form
//! wrapper, rendered under every layout plan of the failing form's first gaps and after 0-2
//! preceding forms; the renderer records the extent of the failing form, of every occurrence of
//! the offending identifier and of the operator, and the reported (line, column) is judged.
use crate::drive::{ErrKind, Interp, Outcome};
use crate::props::c08;
use crate::report::{self, hash_of, Acc, Mismatch, RunInfo};
use crate::{par, Ctx};
use serde_json::json;

const PH: &str = "FAULT-PLACEHOLDER";

pub const WRAPPERS: &[&str] = &[
    "(let ((w 1)) FAULT-PLACEHOLDER)",
    "(let* ((w 1) (w2 w)) FAULT-PLACEHOLDER)",
    "(begin 0 FAULT-PLACEHOLDER)",
    "(cond (#f 0) (else FAULT-PLACEHOLDER))",
    "(cond (1 FAULT-PLACEHOLDER))",
    "(case 1 ((1) FAULT-PLACEHOLDER) (else 0))",
    "(and #t FAULT-PLACEHOLDER)",
    "(or #f FAULT-PLACEHOLDER)",
    "(when #t FAULT-PLACEHOLDER)",
    "(unless #f FAULT-PLACEHOLDER)",
    "(if #t FAULT-PLACEHOLDER 0)",
    "(list 0 (let ((w 1)) (list FAULT-PLACEHOLDER)))",
];

pub const GAPS: &[&str] = &[" ", "\n", "\n    ", " ; c (\n", "\r\n"];
pub const PRECEDING: &[&str] = &[
    "",
    "(define pre1 1)\n",
    "(define (pre2 a)\n  (list a a)) ; trailing\n\n  (define pre3 (pre2 1))\n",
    // tokens that span lines: a string literal and a |symbol| with raw line breaks inside
    "(define pre4 \"first line\n  second line\\\" still\nthird\")\n(define pre5 '|a\nb|) ; c\n",
];

/// preceding material by index: the fixed texts above, then generated material that puts the
/// failing form on every line / column up to a few hundred (4+n: n empty lines; 1000+k: k blanks
/// on the form's own line; 2000+n: n lines of code and comments, then n blanks; 3000+n: one line
/// of n characters that ends in a comment, then the form)
pub fn preceding(pre: usize) -> String {
    match pre {
        0..=3 => PRECEDING[pre].to_string(),
        4..=999 => "\n".repeat(pre - 4),
        1000..=1999 => " ".repeat(pre - 1000),
        2000..=2999 => format!("{}{}", "(define zz 1) ; c\n".repeat(pre - 2000), " ".repeat(pre - 2000)),
        _ => format!("(define zz 1) ;{}\n", "c".repeat(pre - 3000)),
    }
}

/// crude token splitter for harness-authored text (parens, quote, strings, #\c, atoms)
pub fn tokens(text: &str) -> Vec<String> {
    let cs: Vec<char> = text.chars().collect();
    let mut out = vec![];
    let mut i = 0;
    while i < cs.len() {
        let c = cs[i];
        if c.is_whitespace() {
            i += 1;
        } else if c == '(' || c == ')' || c == '\'' {
            out.push(c.to_string());
            i += 1;
        } else if c == '"' {
            let mut j = i + 1;
            while j < cs.len() && cs[j] != '"' {
                j += 1;
            }
            out.push(cs[i..=j.min(cs.len() - 1)].iter().collect());
            i = j + 1;
        } else {
            let mut j = i;
            while j < cs.len() && !cs[j].is_whitespace() && cs[j] != '(' && cs[j] != ')' {
                j += 1;
            }
            if j < cs.len() && cs[j] == '(' && cs[i] == '#' && j == i + 1 {
                j += 1;
            }
            out.push(cs[i..j].iter().collect());
            i = j;
        }
    }
    out
}

fn needs_gap(a: &str, b: &str) -> bool {
    !(a == "(" || a == "'" || a.ends_with('(') || b == ")")
}

#[derive(Clone, Debug, PartialEq, PartialOrd)]
pub struct Pos(pub u32, pub u32);

/// a rendered program: text + extents (start, end-exclusive positions)
pub struct Rendered {
    pub text: String,
    pub fail_extent: (Pos, Pos),
    /// extents of the tokens of the fault expression F, wherever it is
    pub fault_tokens: Vec<(String, Pos, Pos)>,
    /// extents of all tokens of the whole text
    pub all_tokens: Vec<(String, Pos, Pos)>,
}

struct Writer {
    text: String,
    line: u32,
    col: u32,
}
impl Writer {
    fn new() -> Writer {
        Writer { text: String::new(), line: 1, col: 1 }
    }
    fn push(&mut self, s: &str) {
        for c in s.chars() {
            self.text.push(c);
            if c == '\n' {
                self.line += 1;
                self.col = 1;
            } else {
                self.col += 1;
            }
        }
    }
    fn pos(&self) -> Pos {
        Pos(self.line, self.col)
    }
}

#[derive(Clone)]
pub struct Case {
    pub kind: &'static str,
    pub fault: &'static str,
    pub ctx: String,
    pub pre: usize,
    pub defs: Vec<String>,
    /// token template of the failing form (PH marks where F goes); None: F is in the last def
    pub form: String,
    pub layout: Vec<usize>,
}

pub fn render(c: &Case) -> Rendered {
    let mut w = Writer::new();
    let mut all = vec![];
    let mut fault_tokens = vec![];
    let ftoks = tokens(c.fault);
    let emit_form = |w: &mut Writer, text: &str, layout: &[usize], all: &mut Vec<(String, Pos, Pos)>, fault_tokens: &mut Vec<(String, Pos, Pos)>| -> (Pos, Pos) {
        // expand the placeholder into F's tokens, remembering which tokens are F's
        let mut toks: Vec<(String, bool)> = vec![];
        for t in tokens(text) {
            if t == PH {
                for ft in &ftoks {
                    toks.push((ft.clone(), true));
                }
            } else {
                toks.push((t, false));
            }
        }
        let start = w.pos();
        let mut gap_no = 0;
        for (i, (t, is_f)) in toks.iter().enumerate() {
            if i > 0 {
                let g = if gap_no < layout.len() { GAPS[layout[gap_no]] } else { " " };
                gap_no += 1;
                if needs_gap(&toks[i - 1].0, t) || g != " " {
                    w.push(g);
                }
            }
            let a = w.pos();
            w.push(t);
            let b = w.pos();
            all.push((t.clone(), a.clone(), b.clone()));
            if *is_f {
                fault_tokens.push((t.clone(), a, b));
            }
        }
        (start, w.pos())
    };
    w.push(&preceding(c.pre));
    for d in &c.defs {
        emit_form(&mut w, d, &[], &mut all, &mut fault_tokens);
        w.push("\n");
    }
    let fail_extent = emit_form(&mut w, &c.form, &c.layout, &mut all, &mut fault_tokens);
    w.push("\n(define after 1)\n");
    Rendered { text: w.text, fail_extent, fault_tokens, all_tokens: all }
}

fn within(p: &Pos, a: &Pos, b: &Pos) -> bool {
    // start <= position <= end + 1 (the implementation reports the position just past a token)
    (p.0, p.1) >= (a.0, a.1) && (p.0, p.1) <= (b.0, b.1 + 1)
}

pub fn cases(thorough: bool) -> Vec<Case> {
    let mut out = vec![];
    let ngaps = if thorough { 4 } else { 3 };
    let mut layouts: Vec<Vec<usize>> = vec![vec![]];
    for _ in 0..ngaps {
        let mut next = vec![];
        for l in &layouts {
            for g in 0..GAPS.len() {
                let mut m = l.clone();
                m.push(g);
                next.push(m);
            }
        }
        layouts = next;
    }
    for (kind, f) in c08::faults() {
        let mut ctxs: Vec<(String, Vec<String>, String)> = vec![];
        for (name, defs, form) in c08::contexts(PH) {
            if name.starts_with("through-apply") || name == "define-rhs" || name == "set-rhs" {
                continue;
            }
            let defs: Vec<String> = crate::sexp::parse_all(&defs).iter().map(|d| d.to_string()).collect();
            ctxs.push((name.to_string(), defs, form));
        }
        for wr in WRAPPERS {
            let head: String = wr.chars().skip(1).take_while(|c| !c.is_whitespace()).collect();
            ctxs.push((format!("wrapped-{}", head), vec![], wr.to_string()));
            ctxs.push((format!("wrapped-{}-in-procedure", head), vec![format!("(define (p) {})", wr)], "(p)".to_string()));
        }
        // the fault handed to / written inside the template of a user-defined macro
        ctxs.push(("through-user-macro".to_string(), vec!["(define-syntax my-wrap (syntax-rules () ((my-wrap e) (list 0 e))))".to_string()], format!("(my-wrap {})", PH)));
        ctxs.push(("through-user-macro-in-procedure".to_string(), vec!["(define-syntax my-wrap (syntax-rules () ((my-wrap e ...) (begin e ...))))".to_string(), format!("(define (p) (my-wrap 0 {}))", PH)], "(p)".to_string()));
        for (ci, (name, defs, form)) in ctxs.iter().enumerate() {
            // the layout plans apply to the failing form; forms without F get a rotating sample
            let has_f = form.contains(PH);
            for (li, layout) in layouts.iter().enumerate() {
                if !has_f && li % 25 != ci % 25 {
                    continue;
                }
                for pre in 0..PRECEDING.len() {
                    if pre != 0 && (li + ci) % 5 != pre {
                        continue; // preceding material on a rotating fifth of the layouts
                    }
                    out.push(Case { kind, fault: f, ctx: name.clone(), pre, defs: defs.clone(), form: form.clone(), layout: layout.clone() });
                }
            }
        }
    }
    // scale ladders: the failing form at every line and column up to `far`
    let far = if thorough { 700 } else { 300 };
    let mut seen_kinds: Vec<&str> = vec![];
    for (kind, f) in c08::faults() {
        if seen_kinds.contains(&kind) {
            continue;
        }
        seen_kinds.push(kind);
        for (name, defs, form) in c08::contexts(PH).into_iter().filter(|(n, _, _)| matches!(*n, "direct" | "operand" | "tail-let")) {
            let defs: Vec<String> = crate::sexp::parse_all(&defs).iter().map(|d| d.to_string()).collect();
            for n in 1..=far {
                for pre in [4 + n, 1000 + n, 2000 + n, 3000 + n] {
                    if pre >= 2000 && seen_kinds.len() % 3 != n % 3 {
                        continue;
                    }
                    out.push(Case { kind, fault: f, ctx: name.to_string(), pre, defs: defs.clone(), form: form.clone(), layout: vec![1, 0, 2] });
                }
            }
        }
        // one form that spans n lines (one operand per line) with the fault on its last line, and
        // one line of n operands with the fault at its end
        for n in 1..=far {
            if n > 20 && (n + seen_kinds.len()) % 3 != 0 {
                continue;
            }
            let tall = format!("(list {}{})", "1 ".repeat(n), PH);
            out.push(Case { kind, fault: f, ctx: "tall-form".to_string(), pre: 1, defs: vec![], form: tall.clone(), layout: vec![1; n + 1] });
            out.push(Case { kind, fault: f, ctx: "wide-form".to_string(), pre: 1, defs: vec![], form: tall, layout: vec![0; n + 1] });
        }
    }
    out
}

/// the identifier whose lookup fails / the operator tokens of F
fn offending_tokens(c: &Case, r: &Rendered, kind: &ErrKind) -> Vec<(Pos, Pos)> {
    match kind {
        ErrKind::Unbound(name) => r.all_tokens.iter().filter(|(t, _, _)| t == name).map(|(_, a, b)| (a.clone(), b.clone())).collect(),
        ErrKind::NotProcedure => {
            // operator of F = its second token, or the balanced group starting there
            let ft = &r.fault_tokens;
            if ft.len() < 2 {
                return vec![];
            }
            let mut depth = 0i32;
            let mut end = 1;
            for (i, (t, _, _)) in ft.iter().enumerate().skip(1) {
                if t == "(" || t.ends_with('(') {
                    depth += 1;
                } else if t == ")" {
                    depth -= 1;
                }
                if t == "'" {
                    continue;
                }
                if depth == 0 {
                    end = i;
                    break;
                }
            }
            let _ = c;
            vec![(ft[1].1.clone(), ft[end].2.clone())]
        }
        _ => vec![],
    }
}

pub enum Verdict {
    Ok(u64),
    Bad(String, String, Option<&'static str>),
}

pub fn judge(it: &mut Interp, c: &Case) -> Verdict {
    let r = render(c);
    it.fresh_frame();
    for f in crate::sexp::parse_all(c08::SETUP) {
        let _ = it.eval(&f.to_string());
    }
    let o = it.eval(&r.text);
    let v = assess(c, &r, &o);
    // the same text as a program FILE when its layout has CR LF line ends (the file reader
    // normalises them; positions must not move)
    if matches!(v, Verdict::Ok(_)) && r.text.contains('\r') {
        let path = std::path::PathBuf::from(format!("/verif/target/scratch/c15-{}/{:?}.scm", std::process::id(), std::thread::current().id()).replace(['(', ')'], "_"));
        if let Some(d) = path.parent() {
            let _ = std::fs::create_dir_all(d);
        }
        if std::fs::write(&path, &r.text).is_ok() {
            it.fresh_frame();
            for f in crate::sexp::parse_all(c08::SETUP) {
                let _ = it.eval(&f.to_string());
            }
            let i = &mut it.it;
            let p = path.clone();
            let of = match crate::drive::guarded(|| i.eval_file(p)) {
                Ok(Ok(Some(v))) => Outcome::Val(crate::drive::obs_of(&v)),
                Ok(Ok(None)) => Outcome::Val(crate::drive::Obs::NoValue),
                Ok(Err(e)) => Outcome::Err(crate::drive::classify(&e), e.location),
                Err(p) => Outcome::Panic(p),
            };
            if let Verdict::Bad(e, ob, k) = assess(c, &r, &of) {
                return Verdict::Bad(format!("[read from a file]{}", e), ob, k);
            }
        }
    }
    v
}

fn assess(c: &Case, r: &Rendered, o: &Outcome) -> Verdict {
    let (kind, loc) = match o {
        Outcome::Err(k, l) => (k.clone(), *l),
        other => return Verdict::Bad(": an error with a location".into(), format!("{}", other), None),
    };
    let loc = match loc {
        Some(l) => Pos(l[0], l[1]),
        None => return Verdict::Bad(": the error carries a location".into(), format!("{:?} without location", kind), None),
    };
    let in_form = within(&loc, &r.fail_extent.0, &r.fail_extent.1);
    let off = offending_tokens(c, &r, &kind);
    let at_offender = off.iter().any(|(a, b)| within(&loc, a, b));
    let ok = match kind {
        // an unbound variable READ or a non-procedure operator: at the offending identifier /
        // operator. (An assignment to an unbound variable keeps no position of its identifier in
        // the syntax tree; it is judged like the other faults: anywhere in the failing form.)
        ErrKind::Unbound(_) if c.kind == "unbound-set" => in_form || at_offender,
        // the non-procedure is applied by a library procedure of the bundled base.sld: the user's
        // text has no operator position for it, so only "inside the failing form" can be demanded
        // (and never a position of base.sld itself)
        _ if c.kind.ends_with("-in-library") => in_form,
        ErrKind::Unbound(_) | ErrKind::NotProcedure => at_offender,
        _ => in_form,
    };
    if ok {
        Verdict::Ok(hash_of(&(c.ctx.clone(), format!("{:?}", kind), in_form, at_offender)))
    } else {
        let nlines = r.text.matches('\n').count() as u32 + 1;
        let known = if loc.0 > nlines { Some("beyond-end") } else { None };
        let _ = known;
        Verdict::Bad(
            format!(": {:?} located {} (failing form {:?}..{:?}; offender at {:?})", kind, if matches!(kind, ErrKind::Unbound(_) | ErrKind::NotProcedure) { "at the offending identifier / operator" } else { "inside the failing form" }, r.fail_extent.0, r.fail_extent.1, off),
            format!("{}:{} (in failing form: {}, at offender: {})", loc.0, loc.1, in_form, at_offender),
            None,
        )
    }
}

pub fn run(ctx: &Ctx) -> i32 {
    let cs = cases(ctx.thorough());
    let total = cs.len() as u64;
    let csr = &cs;
    let acc = par::sweep(
        total,
        256,
        |_| Interp::must_new(),
        |it, acc: &mut Acc, i| {
            let c = &csr[i as usize];
            acc.evals += 1;
            acc.count(&format!("fault={}", c.kind), 1);
            match judge(it, c) {
                Verdict::Ok(h) => {
                    acc.distinct_hash(h);
                    acc.outcome_class("located in the failing form");
                    if i % (total / 5 + 1) == 9 {
                        acc.sample(i, json!({"text": render(c).text, "context": c.ctx}));
                    }
                }
                Verdict::Bad(e, o, known) => acc.mismatch(
                    Mismatch { idx: i, case: format!("[{}:{}] {}", c.kind, c.ctx, render(c).text), expected: e, observed: o, payload: json!({"kind": c.kind, "fault": c.fault, "ctx": c.ctx, "pre": c.pre, "defs": c.defs, "form": c.form, "layout": c.layout}) },
                    known,
                ),
            }
        },
    );
    report::finish(
        acc,
        RunInfo {
            id: "C15".into(),
            tier: ctx.tier_name(),
            seed: ctx.seed,
            exhaustive: true,
            rule: format!("every fault expression of C08 ({}) x every calling context and every derived-form wrapper ({} wrappers, at top level and inside a procedure) x every assignment of {:?} to the first gaps of the failing form x 0-2 preceding forms (rotating); the whole text is evaluated at once and the reported position is compared with the extents recorded by the renderer; distinct = distinct (context, error kind, verdict pattern); scale ladders: the failing form on every line / column up to 300 (thorough 700) after empty lines, blanks, code and long comment lines; one form spanning n lines / one line of n operands with the fault at its end", c08::faults().len(), WRAPPERS.len(), GAPS),
            bounds: json!({"cases": total, "layout_gaps": if ctx.thorough() { 4 } else { 3 }}),
            assumptions: vec!["'at' tolerates the implementation's end-of-token convention: start <= position <= end + 1".into()],
            wall_s: ctx.elapsed(),
            extra: json!({}),
        },
    )
}

pub fn replay(p: &serde_json::Value) -> bool {
    let faults = c08::faults();
    let fault = p["fault"].as_str().unwrap();
    let (kind, f) = faults.iter().find(|(_, f)| *f == fault).cloned().unwrap();
    let c = Case {
        kind,
        fault: f,
        ctx: p["ctx"].as_str().unwrap_or("").to_string(),
        pre: p["pre"].as_u64().unwrap_or(0) as usize,
        defs: p["defs"].as_array().unwrap().iter().map(|d| d.as_str().unwrap().to_string()).collect(),
        form: p["form"].as_str().unwrap().to_string(),
        layout: p["layout"].as_array().unwrap().iter().map(|d| d.as_u64().unwrap() as usize).collect(),
    };
    let mut it = Interp::new().unwrap();
    match judge(&mut it, &c) {
        Verdict::Ok(_) => false,
        Verdict::Bad(e, o, _) => {
            println!("{}\nexpected {}\nobserved {}", render(&c).text, e, o);
            true
        }
    }
}

//! Supervised worker processes for sweeps whose cases may abort the process (stack exhaustion,
//! memory exhaustion) or never terminate. The supervisor shards an index range over worker
//! processes (this same binary, `mc worker ...`), merges their progress records, and after a
//! worker death re-runs the unfinished block case by case to pin the culprit, classifies it and
//! continues behind it. Crashes of the machinery itself are reported as such, never as verdicts.
use serde_json::Value as J;
use std::io::{BufRead, BufReader, Read};
use std::process::{Command, Stdio};
use std::sync::atomic::{AtomicI64, AtomicU64, Ordering};
use std::sync::Mutex;

pub const BLOCK: u64 = 128;

/// A private copy of this executable, made once per process: worker and segment processes are
/// spawned from it, so that a rebuild of `mc` while a long run is in progress cannot change the
/// code (or the Ruschm tree compiled into it) under the run.
pub fn frozen_exe() -> std::path::PathBuf {
    static EXE: std::sync::OnceLock<std::path::PathBuf> = std::sync::OnceLock::new();
    EXE.get_or_init(|| {
        let me = std::env::current_exe().expect("current_exe");
        let dir = std::path::PathBuf::from("/verif/target/scratch");
        let _ = std::fs::create_dir_all(&dir);
        let copy = dir.join(format!("mc-frozen-{}", std::process::id()));
        match std::fs::copy(&me, &copy) {
            Ok(_) => copy,
            Err(_) => me,
        }
    })
    .clone()
}

pub fn remove_frozen_exe() {
    let _ = std::fs::remove_file(format!("/verif/target/scratch/mc-frozen-{}", std::process::id()));
}

/// how a case ended the worker process
#[derive(Debug, Clone)]
pub struct Death {
    pub index: u64,
    pub class: String,
    pub detail: String,
}

pub struct SuperResult {
    /// progress records (JSON deltas) from all workers
    pub records: Vec<J>,
    pub deaths: Vec<Death>,
    pub machinery_errors: Vec<String>,
}

fn classify_death(status: &std::process::ExitStatus, stderr: &str) -> (String, String) {
    use std::os::unix::process::ExitStatusExt;
    let tail: String = stderr.lines().rev().take(3).collect::<Vec<_>>().join(" | ");
    if stderr.contains("has overflowed its stack") {
        return ("stack-exhaustion".into(), tail);
    }
    if stderr.contains("memory allocation of") {
        return ("memory-exhaustion".into(), tail);
    }
    if let Some(code) = status.code() {
        if code == 3 {
            return ("timeout".into(), tail);
        }
        return (format!("exit-code-{}", code), tail);
    }
    match status.signal() {
        Some(11) => ("signal-SIGSEGV".into(), tail),
        Some(6) => ("signal-SIGABRT".into(), tail),
        Some(9) => ("signal-SIGKILL".into(), tail),
        Some(s) => (format!("signal-{}", s), tail),
        None => ("unknown-death".into(), tail),
    }
}

/// run `mc worker <args> <start> <end> <every_case>`; returns (records, last index completed, finished?, death info)
fn run_child(args: &[String], start: u64, end: u64, every: bool) -> (Vec<J>, Option<u64>, Option<u64>, bool, String, String) {
    let exe = frozen_exe();
    let mut child = Command::new(exe)
        .arg("worker")
        .args(args)
        .arg(start.to_string())
        .arg(end.to_string())
        .arg(if every { "1" } else { "0" })
        .stdout(Stdio::piped())
        .stderr(Stdio::piped())
        .stdin(Stdio::null())
        .spawn()
        .expect("spawn worker process");
    let stdout = child.stdout.take().unwrap();
    let mut stderr = child.stderr.take().unwrap();
    let errh = std::thread::spawn(move || {
        let mut s = String::new();
        let _ = stderr.read_to_string(&mut s);
        s
    });
    let mut records = vec![];
    let mut upto: Option<u64> = None; // last index covered by a progress record
    let mut started: Option<u64> = None; // last "S i" seen (every-case mode)
    let mut finished = false;
    for line in BufReader::new(stdout).lines() {
        let line = match line {
            Ok(l) => l,
            Err(_) => break,
        };
        if let Some(rest) = line.strip_prefix("P ") {
            if let Some((u, j)) = rest.split_once(' ') {
                if let (Ok(u), Ok(j)) = (u.parse::<u64>(), serde_json::from_str::<J>(j)) {
                    upto = Some(u);
                    records.push(j);
                }
            }
        } else if let Some(rest) = line.strip_prefix("S ") {
            started = rest.trim().parse().ok();
        } else if line == "END" {
            finished = true;
        }
    }
    let status = child.wait().expect("wait");
    let err = errh.join().unwrap_or_default();
    let (class, detail) = if finished { (String::new(), String::new()) } else { classify_death(&status, &err) };
    (records, upto, started, finished, class, detail)
}

/// Shard [0, total) over `nworkers` supervisor threads.
pub fn run_sharded(args: Vec<String>, total: u64, nworkers: usize) -> SuperResult {
    let result = Mutex::new(SuperResult { records: vec![], deaths: vec![], machinery_errors: vec![] });
    let next = AtomicU64::new(0);
    let shard = ((total + nworkers as u64 * 16 - 1) / (nworkers as u64 * 16)).max(BLOCK);
    let deaths_budget = AtomicI64::new(2000);
    std::thread::scope(|s| {
        for _ in 0..nworkers {
            s.spawn(|| loop {
                let s0 = next.fetch_add(shard, Ordering::Relaxed);
                if s0 >= total {
                    break;
                }
                let e0 = (s0 + shard).min(total);
                let mut start = s0;
                while start < e0 {
                    let (records, upto, _started, finished, _class, _detail) = run_child(&args, start, e0, false);
                    if std::env::var("MC_SUP_DEBUG").is_ok() {
                        eprintln!("SUP normal {}..{} -> upto={:?} finished={} class={} records={}", start, e0, upto, finished, _class, records.len());
                    }
                    result.lock().unwrap().records.extend(records);
                    if finished {
                        break;
                    }
                    // the worker died somewhere after `upto`: re-run the next block case by case
                    let bstart = upto.map(|u| u + 1).unwrap_or(start);
                    let bend = (bstart + BLOCK).min(e0);
                    let (records, upto2, started2, finished2, class2, detail2) = run_child(&args, bstart, bend, true);
                    if std::env::var("MC_SUP_DEBUG").is_ok() {
                        eprintln!("SUP every {}..{} -> upto={:?} started={:?} finished={} class={} records={}", bstart, bend, upto2, started2, finished2, class2, records.len());
                    }
                    let mut r = result.lock().unwrap();
                    r.records.extend(records);
                    if finished2 {
                        // did not reproduce in isolation: nondeterministic death of the worker
                        r.machinery_errors.push(format!("worker death in block {}..{} did not reproduce case by case", bstart, bend));
                        start = bend;
                        continue;
                    }
                    let culprit = started2.unwrap_or(upto2.map(|u| u + 1).unwrap_or(bstart));
                    r.deaths.push(Death { index: culprit, class: class2, detail: detail2 });
                    drop(r);
                    if deaths_budget.fetch_sub(1, Ordering::Relaxed) <= 0 {
                        result.lock().unwrap().machinery_errors.push("more than 2000 worker deaths: giving up on this shard".into());
                        break;
                    }
                    start = culprit + 1;
                }
            });
        }
    });
    result.into_inner().unwrap()
}

// ---------------------------------------------------------------------------------------------
// worker side helpers

static CASE_START_MS: AtomicU64 = AtomicU64::new(0);
static CASE_INDEX: AtomicU64 = AtomicU64::new(u64::MAX);

fn now_ms() -> u64 {
    use std::time::{SystemTime, UNIX_EPOCH};
    SystemTime::now().duration_since(UNIX_EPOCH).map(|d| d.as_millis() as u64).unwrap_or(0)
}

static PROTO: Mutex<Option<std::fs::File>> = Mutex::new(None);

/// write one protocol line to the supervisor (NOT through stdout: evaluated programs print there)
pub fn emit(line: &str) {
    use std::io::Write;
    let mut g = PROTO.lock().unwrap();
    match g.as_mut() {
        Some(f) => {
            let _ = f.write_all(line.as_bytes());
            let _ = f.write_all(b"\n");
            let _ = f.flush();
        }
        None => println!("{}", line),
    }
}

/// limits + watchdog: a case that runs longer than `limit_ms` ends the worker with exit code 3
pub fn worker_init(limit_ms: u64, address_space: u64) {
    unsafe {
        // the protocol keeps the original stdout; fd 1 is pointed at /dev/null so that display /
        // newline of evaluated programs cannot corrupt the protocol stream
        use std::os::unix::io::FromRawFd;
        let proto = libc::dup(1);
        let devnull = libc::open(b"/dev/null\0".as_ptr() as *const libc::c_char, libc::O_WRONLY);
        if proto >= 0 && devnull >= 0 {
            libc::dup2(devnull, 1);
            libc::close(devnull);
            *PROTO.lock().unwrap() = Some(std::fs::File::from_raw_fd(proto));
        }
        let lim = libc::rlimit { rlim_cur: address_space, rlim_max: address_space };
        libc::setrlimit(libc::RLIMIT_AS, &lim);
    }
    std::thread::spawn(move || loop {
        std::thread::sleep(std::time::Duration::from_millis(50));
        let idx = CASE_INDEX.load(Ordering::Relaxed);
        if idx != u64::MAX {
            let t0 = CASE_START_MS.load(Ordering::Relaxed);
            if now_ms().saturating_sub(t0) > limit_ms {
                emit(&format!("S {}", idx));
                eprintln!("TIMEOUT {}", idx);
                std::process::exit(3);
            }
        }
    });
}
pub fn case_begin(i: u64) {
    CASE_START_MS.store(now_ms(), Ordering::Relaxed);
    CASE_INDEX.store(i, Ordering::Relaxed);
}
pub fn case_end() {
    CASE_INDEX.store(u64::MAX, Ordering::Relaxed);
}


/// A request/response worker process (`mc worker <args>` reading one JSON request per line on
/// stdin, answering one JSON line through `emit`). It is replaced by a new process after
/// `recycle_after` requests, so that memory the interpreter never frees (Rc cycles of library
/// instances) is returned to the system. A worker that dies answers with Err.
pub struct ProcWorker {
    args: Vec<String>,
    recycle_after: usize,
    served: usize,
    child: Option<(std::process::Child, std::process::ChildStdin, BufReader<std::process::ChildStdout>)>,
}

impl ProcWorker {
    pub fn new(args: Vec<String>, recycle_after: usize) -> ProcWorker {
        ProcWorker { args, recycle_after, served: 0, child: None }
    }
    fn stop(&mut self) {
        if let Some((mut c, stdin, _)) = self.child.take() {
            drop(stdin);
            let _ = c.kill();
            let _ = c.wait();
        }
        self.served = 0;
    }
    fn ensure(&mut self) -> Result<(), String> {
        if self.child.is_some() && self.served >= self.recycle_after {
            self.stop();
        }
        if self.child.is_none() {
            let mut c = Command::new(frozen_exe()).arg("worker").args(&self.args).stdin(Stdio::piped()).stdout(Stdio::piped()).stderr(Stdio::null()).spawn().map_err(|e| format!("spawn worker: {}", e))?;
            let stdin = c.stdin.take().unwrap();
            let stdout = BufReader::new(c.stdout.take().unwrap());
            self.child = Some((c, stdin, stdout));
        }
        Ok(())
    }
    pub fn request(&mut self, req: &J) -> Result<J, String> {
        use std::io::Write;
        self.ensure()?;
        let (child, stdin, stdout) = self.child.as_mut().unwrap();
        let sent = stdin.write_all(req.to_string().as_bytes()).and_then(|_| stdin.write_all(b"\n")).and_then(|_| stdin.flush());
        let mut line = String::new();
        let got = if sent.is_ok() { stdout.read_line(&mut line).unwrap_or(0) } else { 0 };
        self.served += 1;
        if got == 0 {
            let status = child.wait().map(|s| format!("{:?}", s)).unwrap_or_else(|e| e.to_string());
            self.child = None;
            self.served = 0;
            return Err(format!("worker process ended while serving the request ({})", status));
        }
        serde_json::from_str(line.trim()).map_err(|e| format!("worker answer does not parse: {} in {:?}", e, line))
    }
}

impl Drop for ProcWorker {
    fn drop(&mut self) {
        self.stop();
    }
}

//! Reference syntax-rules matcher / expander, written from R7RS 4.3.2, restricted to the class the
//! property names: keyword spelled out in each pattern, proper-list and vector patterns, at most
//! one ellipsis per (sub)list and in final position, ellipsis depth 1, templates whose ellipsis
//! sub-templates mention only ellipsis variables. Shares no code with ruschm::parser::macros.
use crate::sexp::Sx;
use std::collections::{BTreeMap, BTreeSet};

#[derive(Clone, Debug, PartialEq)]
pub enum Binding {
    One(Sx),
    Seq(Vec<Sx>),
}
pub type Bindings = BTreeMap<String, Binding>;

pub struct Rules {
    pub literals: BTreeSet<String>,
    /// (pattern including the keyword position, template)
    pub rules: Vec<(Sx, Sx)>,
    /// an ellipsis matches `min_items` or more items (R7RS: 0; the interpreter's supported class: 1)
    pub min_items: usize,
}

#[derive(Debug, PartialEq, Clone)]
pub enum Expansion {
    /// index of the selected rule and the instantiated template
    Rule(usize, Sx),
    NoMatch,
    /// the template uses an ellipsis variable without ellipsis, lengths disagree, ... (outside the class)
    OutOfClass(&'static str),
}

fn is_ellipsis(x: &Sx) -> bool {
    x.as_sym() == Some("...")
}

fn split_ellipsis(items: &[Sx]) -> Result<(&[Sx], Option<&Sx>), &'static str> {
    // supported class: ellipsis only after the last sub-pattern
    match items.iter().position(is_ellipsis) {
        None => Ok((items, None)),
        Some(0) => Err("ellipsis without preceding pattern"),
        Some(i) if i == items.len() - 1 => Ok((&items[..i - 1], Some(&items[i - 1]))),
        Some(_) => Err("ellipsis not in final position"),
    }
}

impl Rules {
    fn match_seq(&self, pats: &[Sx], forms: &[Sx], b: &mut Bindings, under_ellipsis: bool) -> Result<bool, &'static str> {
        let (fixed, ell) = split_ellipsis(pats)?;
        match ell {
            None => {
                if fixed.len() != forms.len() {
                    return Ok(false);
                }
                for (p, f) in fixed.iter().zip(forms) {
                    if !self.match_one(p, f, b, under_ellipsis)? {
                        return Ok(false);
                    }
                }
                Ok(true)
            }
            Some(pe) => {
                if under_ellipsis {
                    return Err("nested ellipsis");
                }
                if forms.len() < fixed.len() + self.min_items {
                    return Ok(false);
                }
                for (p, f) in fixed.iter().zip(forms) {
                    if !self.match_one(p, f, b, false)? {
                        return Ok(false);
                    }
                }
                let mut seqs: BTreeMap<String, Vec<Sx>> = BTreeMap::new();
                for v in pattern_vars(pe, &self.literals) {
                    seqs.insert(v, vec![]);
                }
                for f in &forms[fixed.len()..] {
                    let mut sub = Bindings::new();
                    if !self.match_one(pe, f, &mut sub, true)? {
                        return Ok(false);
                    }
                    for (k, v) in sub {
                        if let Binding::One(x) = v {
                            seqs.get_mut(&k).unwrap().push(x);
                        }
                    }
                }
                for (k, v) in seqs {
                    b.insert(k, Binding::Seq(v));
                }
                Ok(true)
            }
        }
    }

    fn match_one(&self, p: &Sx, f: &Sx, b: &mut Bindings, under_ellipsis: bool) -> Result<bool, &'static str> {
        Ok(match p {
            Sx::Sym(s) if s == "_" => true,
            Sx::Sym(s) if s == "..." => return Err("stray ellipsis"),
            Sx::Sym(s) if self.literals.contains(s) => f.as_sym() == Some(s.as_str()),
            Sx::Sym(s) => {
                b.insert(s.clone(), Binding::One(f.clone()));
                true
            }
            Sx::List(ps) => match f {
                Sx::List(fs) => self.match_seq(ps, fs, b, under_ellipsis)?,
                _ => false,
            },
            Sx::Vector(ps) => match f {
                Sx::Vector(fs) => self.match_seq(ps, fs, b, under_ellipsis)?,
                _ => false,
            },
            Sx::Dotted(..) => return Err("improper pattern"),
            // literal datum: matches an equal datum
            datum => datum == f,
        })
    }

    pub fn expand(&self, use_form: &Sx) -> Expansion {
        let args = match use_form {
            Sx::List(v) if !v.is_empty() => &v[1..],
            _ => return Expansion::OutOfClass("use is not a list"),
        };
        for (i, (pat, tpl)) in self.rules.iter().enumerate() {
            let pats = match pat {
                Sx::List(v) if !v.is_empty() => &v[1..],
                _ => return Expansion::OutOfClass("pattern is not a list"),
            };
            let mut b = Bindings::new();
            match self.match_seq(pats, args, &mut b, false) {
                Err(why) => return Expansion::OutOfClass(why),
                Ok(false) => continue,
                Ok(true) => {
                    return match instantiate(tpl, &b) {
                        Ok(x) => Expansion::Rule(i, x),
                        Err(why) => Expansion::OutOfClass(why),
                    }
                }
            }
        }
        Expansion::NoMatch
    }
}

pub fn pattern_vars(p: &Sx, literals: &BTreeSet<String>) -> Vec<String> {
    let mut out = vec![];
    fn go(p: &Sx, lits: &BTreeSet<String>, out: &mut Vec<String>) {
        match p {
            Sx::Sym(s) if s != "_" && s != "..." && !lits.contains(s) => out.push(s.clone()),
            Sx::List(v) | Sx::Vector(v) => v.iter().for_each(|x| go(x, lits, out)),
            _ => {}
        }
    }
    go(p, literals, &mut out);
    out
}

fn template_seq_vars(t: &Sx, b: &Bindings, out: &mut Vec<String>) {
    match t {
        Sx::Sym(s) => {
            if let Some(Binding::Seq(_)) = b.get(s) {
                out.push(s.clone());
            }
        }
        Sx::List(v) | Sx::Vector(v) => v.iter().for_each(|x| template_seq_vars(x, b, out)),
        _ => {}
    }
}

fn instantiate_items(items: &[Sx], b: &Bindings) -> Result<Vec<Sx>, &'static str> {
    let mut out = vec![];
    let mut i = 0;
    while i < items.len() {
        let t = &items[i];
        if is_ellipsis(t) {
            return Err("stray ellipsis in template");
        }
        if i + 1 < items.len() && is_ellipsis(&items[i + 1]) {
            if i + 2 < items.len() && is_ellipsis(&items[i + 2]) {
                return Err("consecutive ellipses in template");
            }
            let mut vars = vec![];
            template_seq_vars(t, b, &mut vars);
            if vars.is_empty() {
                return Err("ellipsis sub-template without ellipsis variable");
            }
            let lens: Vec<usize> = vars.iter().map(|v| if let Some(Binding::Seq(s)) = b.get(v) { s.len() } else { 0 }).collect();
            if lens.iter().any(|l| *l != lens[0]) {
                return Err("ellipsis variables of different lengths in one sub-template");
            }
            for k in 0..lens[0] {
                let mut bk = b.clone();
                for v in &vars {
                    if let Some(Binding::Seq(s)) = b.get(v) {
                        bk.insert(v.clone(), Binding::One(s[k].clone()));
                    }
                }
                out.push(instantiate(t, &bk)?);
            }
            i += 2;
        } else {
            out.push(instantiate(t, b)?);
            i += 1;
        }
    }
    Ok(out)
}

pub fn instantiate(t: &Sx, b: &Bindings) -> Result<Sx, &'static str> {
    Ok(match t {
        Sx::Sym(s) => match b.get(s) {
            Some(Binding::One(x)) => x.clone(),
            Some(Binding::Seq(_)) => return Err("ellipsis variable used without ellipsis"),
            None => t.clone(),
        },
        Sx::List(v) => Sx::List(instantiate_items(v, b)?),
        Sx::Vector(v) => Sx::Vector(instantiate_items(v, b)?),
        Sx::Dotted(..) => return Err("improper template"),
        d => d.clone(),
    })
}

#[cfg(test)]
mod tests {
    use super::*;
    use crate::sexp::parse1;
    fn rules(lits: &[&str], rs: &[(&str, &str)], min: usize) -> Rules {
        Rules { literals: lits.iter().map(|s| s.to_string()).collect(), rules: rs.iter().map(|(p, t)| (parse1(p), parse1(t))).collect(), min_items: min }
    }
    #[test]
    fn r7rs_examples() {
        // R7RS 4.3.2: (let ((=> #f)) (cond (#t => 'ok))) relies on literal matching; be-like-begin; my-or
        let r = rules(&[], &[("(my-or)", "#f"), ("(my-or e)", "e"), ("(my-or e1 e2 ...)", "(let ((t e1)) (if t t (my-or e2 ...)))")], 0);
        assert_eq!(r.expand(&parse1("(my-or)")), Expansion::Rule(0, parse1("#f")));
        assert_eq!(r.expand(&parse1("(my-or 1)")), Expansion::Rule(1, parse1("1")));
        assert_eq!(r.expand(&parse1("(my-or 1 2 3)")), Expansion::Rule(2, parse1("(let ((t 1)) (if t t (my-or 2 3)))")));
        let r = rules(&["else"], &[("(c (else e))", "e"), ("(c (t e))", "(if t e)")], 1);
        assert_eq!(r.expand(&parse1("(c (else 1))")), Expansion::Rule(0, parse1("1")));
        assert_eq!(r.expand(&parse1("(c (x 1))")), Expansion::Rule(1, parse1("(if x 1)")));
        let r = rules(&[], &[("(l ((n v) ...) b ...)", "((lambda (n ...) b ...) v ...)")], 1);
        assert_eq!(r.expand(&parse1("(l ((a 1) (b 2)) x y)")), Expansion::Rule(0, parse1("((lambda (a b) x y) 1 2)")));
        assert_eq!(r.expand(&parse1("(l ((a 1) (b)) x y)")), Expansion::NoMatch);
        let r = rules(&[], &[("(m 1)", "one"), ("(m 2)", "two"), ("(m #(a b ...))", "(b ... a)")], 1);
        assert_eq!(r.expand(&parse1("(m 2)")), Expansion::Rule(1, parse1("two")));
        assert_eq!(r.expand(&parse1("(m #(1 2 3))")), Expansion::Rule(2, parse1("(2 3 1)")));
        assert_eq!(r.expand(&parse1("(m 3)")), Expansion::NoMatch);
    }
}

//! Tiny S-expression AST used by the generators and the reference models.
//! It shares no code with ruschm. `Display` prints canonical one-blank text.
use std::fmt;

#[derive(Clone, PartialEq, Eq, Hash, Debug, PartialOrd, Ord)]
pub enum Sx {
    Int(i64),
    Rat(i64, i64),
    /// real literal, kept as source text (e.g. "1.5", "-0.0", "1e10")
    Real(String),
    Bool(bool),
    Char(char),
    Str(String),
    Sym(String),
    List(Vec<Sx>),
    Dotted(Vec<Sx>, Box<Sx>),
    Vector(Vec<Sx>),
}

pub fn sym(s: &str) -> Sx {
    Sx::Sym(s.to_string())
}
pub fn int(i: i64) -> Sx {
    Sx::Int(i)
}
pub fn list(v: Vec<Sx>) -> Sx {
    Sx::List(v)
}
pub fn quote(x: Sx) -> Sx {
    Sx::List(vec![sym("quote"), x])
}
pub fn call(f: &str, args: Vec<Sx>) -> Sx {
    let mut v = vec![sym(f)];
    v.extend(args);
    Sx::List(v)
}

#[macro_export]
macro_rules! sx {
    ($($e:expr),* $(,)?) => { $crate::sexp::Sx::List(vec![$($e.clone().into()),*]) };
}

impl From<&str> for Sx {
    fn from(s: &str) -> Sx {
        Sx::Sym(s.to_string())
    }
}
impl From<i64> for Sx {
    fn from(i: i64) -> Sx {
        Sx::Int(i)
    }
}
impl From<bool> for Sx {
    fn from(b: bool) -> Sx {
        Sx::Bool(b)
    }
}

pub fn write_str_lit(f: &mut impl fmt::Write, s: &str) -> fmt::Result {
    f.write_char('"')?;
    for c in s.chars() {
        match c {
            '"' => f.write_str("\\\"")?,
            '\\' => f.write_str("\\\\")?,
            '\n' => f.write_str("\\n")?,
            '\t' => f.write_str("\\t")?,
            '\r' => f.write_str("\\r")?,
            c => f.write_char(c)?,
        }
    }
    f.write_char('"')
}

impl fmt::Display for Sx {
    fn fmt(&self, f: &mut fmt::Formatter) -> fmt::Result {
        match self {
            Sx::Int(i) => write!(f, "{}", i),
            Sx::Rat(a, b) => write!(f, "{}/{}", a, b),
            Sx::Real(s) => write!(f, "{}", s),
            Sx::Bool(true) => write!(f, "#t"),
            Sx::Bool(false) => write!(f, "#f"),
            Sx::Char(c) => write!(f, "#\\{}", c),
            Sx::Str(s) => write_str_lit(f, s),
            Sx::Sym(s) => {
                if s.is_empty() || s.chars().any(|c| c.is_whitespace() || "()\";|'".contains(c)) {
                    write!(f, "|{}|", s)
                } else {
                    write!(f, "{}", s)
                }
            }
            Sx::List(v) => {
                // quote abbreviation is NOT used: the interpreter rejects it inside data
                write!(f, "(")?;
                for (i, x) in v.iter().enumerate() {
                    if i > 0 {
                        write!(f, " ")?;
                    }
                    write!(f, "{}", x)?;
                }
                write!(f, ")")
            }
            Sx::Dotted(v, t) => {
                write!(f, "(")?;
                for (i, x) in v.iter().enumerate() {
                    if i > 0 {
                        write!(f, " ")?;
                    }
                    write!(f, "{}", x)?;
                }
                write!(f, " . {})", t)
            }
            Sx::Vector(v) => {
                write!(f, "#(")?;
                for (i, x) in v.iter().enumerate() {
                    if i > 0 {
                        write!(f, " ")?;
                    }
                    write!(f, "{}", x)?;
                }
                write!(f, ")")
            }
        }
    }
}

impl Sx {
    pub fn nodes(&self) -> usize {
        match self {
            Sx::List(v) | Sx::Vector(v) => 1 + v.iter().map(|x| x.nodes()).sum::<usize>(),
            Sx::Dotted(v, t) => 1 + v.iter().map(|x| x.nodes()).sum::<usize>() + t.nodes(),
            _ => 1,
        }
    }
    pub fn as_sym(&self) -> Option<&str> {
        match self {
            Sx::Sym(s) => Some(s),
            _ => None,
        }
    }
    pub fn as_list(&self) -> Option<&[Sx]> {
        match self {
            Sx::List(v) => Some(v),
            _ => None,
        }
    }
    pub fn is_call_to(&self, head: &str) -> bool {
        match self {
            Sx::List(v) => v.first().and_then(|h| h.as_sym()) == Some(head),
            _ => false,
        }
    }
}

// ---------------------------------------------------------------------------------------------
// A reader for harness-authored text (NOT the reader under test; used only so that programs in
// the harness can be written as strings and handed to the reference evaluator as trees).

pub struct Reader<'a> {
    s: &'a [u8],
    p: usize,
}

fn is_delim(c: u8) -> bool {
    matches!(c, b' ' | b'\t' | b'\n' | b'\r' | b'(' | b')' | b'"' | b';')
}

impl<'a> Reader<'a> {
    pub fn new(s: &'a str) -> Self {
        Reader { s: s.as_bytes(), p: 0 }
    }
    fn skip(&mut self) {
        loop {
            while self.p < self.s.len() && matches!(self.s[self.p], b' ' | b'\t' | b'\n' | b'\r') {
                self.p += 1;
            }
            if self.p < self.s.len() && self.s[self.p] == b';' {
                while self.p < self.s.len() && self.s[self.p] != b'\n' {
                    self.p += 1;
                }
            } else {
                break;
            }
        }
    }
    pub fn read(&mut self) -> Option<Sx> {
        self.skip();
        if self.p >= self.s.len() {
            return None;
        }
        let c = self.s[self.p];
        match c {
            b'(' => {
                self.p += 1;
                let mut v = vec![];
                loop {
                    self.skip();
                    if self.p >= self.s.len() {
                        panic!("harness text: unclosed list");
                    }
                    if self.s[self.p] == b')' {
                        self.p += 1;
                        return Some(Sx::List(v));
                    }
                    if self.s[self.p] == b'.'
                        && self.p + 1 < self.s.len()
                        && is_delim(self.s[self.p + 1])
                    {
                        self.p += 1;
                        let t = self.read().expect("tail");
                        self.skip();
                        assert_eq!(self.s[self.p], b')');
                        self.p += 1;
                        return Some(Sx::Dotted(v, Box::new(t)));
                    }
                    v.push(self.read().expect("element"));
                }
            }
            b')' => panic!("harness text: unexpected )"),
            b'\'' => {
                self.p += 1;
                let x = self.read().expect("quoted");
                Some(quote(x))
            }
            b'"' => {
                self.p += 1;
                let mut out = String::new();
                loop {
                    let c = self.s[self.p];
                    self.p += 1;
                    match c {
                        b'"' => break,
                        b'\\' => {
                            let e = self.s[self.p];
                            self.p += 1;
                            out.push(match e {
                                b'n' => '\n',
                                b't' => '\t',
                                b'r' => '\r',
                                o => o as char,
                            });
                        }
                        o => out.push(o as char),
                    }
                }
                Some(Sx::Str(out))
            }
            b'#' => {
                if self.s[self.p + 1] == b'(' {
                    self.p += 2;
                    let mut v = vec![];
                    loop {
                        self.skip();
                        if self.s[self.p] == b')' {
                            self.p += 1;
                            return Some(Sx::Vector(v));
                        }
                        v.push(self.read().expect("element"));
                    }
                } else if self.s[self.p + 1] == b'\\' {
                    let c = self.s[self.p + 2] as char;
                    self.p += 3;
                    Some(Sx::Char(c))
                } else if self.s[self.p + 1] == b't' {
                    self.p += 2;
                    Some(Sx::Bool(true))
                } else if self.s[self.p + 1] == b'f' {
                    self.p += 2;
                    Some(Sx::Bool(false))
                } else {
                    panic!("harness text: bad # syntax")
                }
            }
            _ => {
                let st = self.p;
                while self.p < self.s.len() && !is_delim(self.s[self.p]) {
                    self.p += 1;
                }
                let tok = std::str::from_utf8(&self.s[st..self.p]).unwrap();
                Some(atom(tok))
            }
        }
    }
}

fn atom(tok: &str) -> Sx {
    if let Ok(i) = tok.parse::<i64>() {
        return Sx::Int(i);
    }
    if let Some((a, b)) = tok.split_once('/') {
        if let (Ok(a), Ok(b)) = (a.parse::<i64>(), b.parse::<i64>()) {
            return Sx::Rat(a, b);
        }
    }
    let first = tok.as_bytes()[0];
    if (first.is_ascii_digit() || ((first == b'-' || first == b'+' || first == b'.') && tok.len() > 1))
        && tok.parse::<f64>().is_ok()
        && tok.bytes().any(|c| c.is_ascii_digit())
    {
        return Sx::Real(tok.to_string());
    }
    Sx::Sym(tok.to_string())
}

pub fn parse_all(s: &str) -> Vec<Sx> {
    let mut r = Reader::new(s);
    let mut out = vec![];
    while let Some(x) = r.read() {
        out.push(x);
    }
    out
}
pub fn parse1(s: &str) -> Sx {
    let v = parse_all(s);
    assert_eq!(v.len(), 1, "expected exactly one datum in {:?}", s);
    v.into_iter().next().unwrap()
}

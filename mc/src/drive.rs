//! Driver of the real interpreter: observation domain, error classification, panic capture,
//! native probes, pooled / fresh execution.
use ruschm::environment::{Environment, LexicalScope};
use ruschm::error::{ErrorData, SchemeError};
use ruschm::interpreter::error::LogicError;
use ruschm::interpreter::Interpreter;
use ruschm::parser::error::SyntaxError;
use ruschm::parser::pair::GenericPair;
use ruschm::values::{Number, Procedure, Type, Value};
use std::cell::RefCell;
use std::panic::{catch_unwind, AssertUnwindSafe};
use std::rc::Rc;

/// Structural observation of an implementation value (never via Display/Debug strings).
#[derive(Clone, PartialEq, Debug, Hash, Eq)]
pub enum Obs {
    Int(i32),
    Rat(i32, i32),
    Real(u32),
    Bool(bool),
    Char(char),
    Str(String),
    Sym(String),
    Nil,
    Pair(Box<Obs>, Box<Obs>),
    Vector(bool, Vec<Obs>),
    Proc,
    Transformer,
    Void,
    /// eval returned Ok(None) (definition / import / empty input)
    NoValue,
}

impl std::fmt::Display for Obs {
    fn fmt(&self, f: &mut std::fmt::Formatter) -> std::fmt::Result {
        match self {
            Obs::Int(i) => write!(f, "{}", i),
            Obs::Rat(a, b) => write!(f, "{}/{}", a, b),
            Obs::Real(b) => write!(f, "{:?}f", f32::from_bits(*b)),
            Obs::Bool(true) => write!(f, "#t"),
            Obs::Bool(false) => write!(f, "#f"),
            Obs::Char(c) => write!(f, "#\\{}", c),
            Obs::Str(s) => write!(f, "{:?}", s),
            Obs::Sym(s) => write!(f, "{}", s),
            Obs::Nil => write!(f, "()"),
            Obs::Pair(a, d) => {
                write!(f, "({}", a)?;
                let mut t: &Obs = d;
                loop {
                    match t {
                        Obs::Nil => break,
                        Obs::Pair(a, d) => {
                            write!(f, " {}", a)?;
                            t = d;
                        }
                        o => {
                            write!(f, " . {}", o)?;
                            break;
                        }
                    }
                }
                write!(f, ")")
            }
            Obs::Vector(m, v) => {
                write!(f, "#{}(", if *m { "" } else { "lit" })?;
                for (i, x) in v.iter().enumerate() {
                    if i > 0 {
                        write!(f, " ")?;
                    }
                    write!(f, "{}", x)?;
                }
                write!(f, ")")
            }
            Obs::Proc => write!(f, "#<procedure>"),
            Obs::Transformer => write!(f, "#<transformer>"),
            Obs::Void => write!(f, "#<void>"),
            Obs::NoValue => write!(f, "#<no-value>"),
        }
    }
}

pub fn obs_of(v: &Value<f32>) -> Obs {
    match v {
        Value::Number(Number::Integer(i)) => Obs::Int(*i),
        Value::Number(Number::Rational(a, b)) => Obs::Rat(*a, *b),
        Value::Number(Number::Real(r)) => Obs::Real(r.to_bits()),
        Value::Boolean(b) => Obs::Bool(*b),
        Value::Character(c) => Obs::Char(*c),
        Value::String(s) => Obs::Str(s.clone()),
        Value::Symbol(s) => Obs::Sym(s.clone()),
        Value::Procedure(_) => Obs::Proc,
        Value::Vector(vr) => {
            let mutable = matches!(vr, ruschm::values::ValueReference::Mutable(_));
            let items = vr.as_ref().iter().map(obs_of).collect();
            Obs::Vector(mutable, items)
        }
        Value::Pair(p) => match p.as_ref() {
            GenericPair::Empty => Obs::Nil,
            GenericPair::Some(a, d) => Obs::Pair(Box::new(obs_of(a)), Box::new(obs_of(d))),
        },
        Value::Transformer(_) => Obs::Transformer,
        Value::Void => Obs::Void,
    }
}

/// Error kinds: the comparison domain for reported errors.
#[derive(Clone, PartialEq, Eq, Debug, Hash, PartialOrd, Ord)]
pub enum ErrKind {
    Unbound(String),
    NotProcedure,
    Arity,
    WrongType,
    Index,
    Immutable,
    DivByZero,
    NoMatchingRule,
    ImportCycle,
    LibraryNotFound,
    Syntax(String),
    Io,
    Other(String),
}

impl std::fmt::Display for ErrKind {
    fn fmt(&self, f: &mut std::fmt::Formatter) -> std::fmt::Result {
        write!(f, "{:?}", self)
    }
}

fn syntax_variant(e: &SyntaxError) -> String {
    let d = format!("{:?}", e);
    d.split(|c: char| !c.is_alphanumeric()).next().unwrap_or("").to_string()
}

pub fn classify(e: &SchemeError) -> ErrKind {
    match &e.data {
        ErrorData::Logic(l) => match l {
            LogicError::UnboundedSymbol(n) => ErrKind::Unbound(n.clone()),
            LogicError::TypeMisMatch(_, Type::Procedure) => ErrKind::NotProcedure,
            LogicError::TypeMisMatch(_, _) => ErrKind::WrongType,
            LogicError::ArgumentMissMatch(_, _) => ErrKind::Arity,
            LogicError::DivisionByZero => ErrKind::DivByZero,
            LogicError::VectorIndexOutOfBounds => ErrKind::Index,
            LogicError::RequiresMutable(_) => ErrKind::Immutable,
            LogicError::LibraryNotFound(_) => ErrKind::LibraryNotFound,
            LogicError::LibraryImportCyclic(_) => ErrKind::ImportCycle,
            LogicError::MetaCircularSyntax(s) => ErrKind::Syntax(syntax_variant(s)),
            LogicError::NegativeLength => ErrKind::Other("NegativeLength".into()),
            LogicError::InproperList(_) => ErrKind::Other("InproperList".into()),
            LogicError::InExactConversion(_) => ErrKind::Other("InExactConversion".into()),
            LogicError::UnexpectedExpression(_) => ErrKind::Other("UnexpectedExpression".into()),
            LogicError::Extension(m) if m.starts_with("verif: evaluation fuel exhausted") => ErrKind::Other(NON_TERMINATION.into()),
            LogicError::Extension(_) => ErrKind::Other("Extension".into()),
            // a variant added by a later version of the repository: classified by its name, so
            // that an additive change does not stop the harness from compiling
            #[allow(unreachable_patterns)]
            other => ErrKind::Other(format!("{:?}", other).split(|c: char| !c.is_alphanumeric()).next().unwrap_or("").to_string()),
        },
        ErrorData::Syntax(SyntaxError::MacroMissMatch(_, _)) => ErrKind::NoMatchingRule,
        ErrorData::Syntax(s) => ErrKind::Syntax(syntax_variant(s)),
        ErrorData::IO(_) => ErrKind::Io,
    }
}

#[derive(Clone, PartialEq, Eq, Debug, Hash)]
pub enum Outcome {
    Val(Obs),
    Err(ErrKind, Option<[u32; 2]>),
    Panic(String),
}

impl std::fmt::Display for Outcome {
    fn fmt(&self, f: &mut std::fmt::Formatter) -> std::fmt::Result {
        match self {
            Outcome::Val(o) => write!(f, "{}", o),
            Outcome::Err(k, loc) => write!(f, "error {:?} at {:?}", k, loc),
            Outcome::Panic(m) => write!(f, "PANIC {}", m),
        }
    }
}

impl Outcome {
    pub fn class(&self) -> String {
        match self {
            Outcome::Val(_) => "value".into(),
            Outcome::Err(k, _) => match k {
                ErrKind::Unbound(_) => "err:Unbound".into(),
                ErrKind::Syntax(s) => format!("err:Syntax:{}", s),
                ErrKind::Other(s) => format!("err:{}", s),
                k => format!("err:{:?}", k),
            },
            Outcome::Panic(m) => format!("panic:{}", panic_class(m)),
        }
    }
}

/// Class of a panic message: stable under file/line changes and under changes of the payload
/// values quoted in the message.
pub fn panic_class(m: &str) -> String {
    if m.contains("ParseIntError") {
        "unwrap-ParseIntError".into()
    } else if m.contains("ParseFloatError") {
        "unwrap-ParseFloatError".into()
    } else if m.contains("with overflow") {
        "arith-overflow".into()
    } else if m.contains("not yet implemented") {
        "todo".into()
    } else if m.contains("unreachable") {
        "unreachable".into()
    } else if m.contains("called `Option::unwrap()` on a `None`") {
        "unwrap-None".into()
    } else if m.contains("called `Result::unwrap()` on an `Err`") {
        "unwrap-Err".into()
    } else if m.contains("already borrowed") || m.contains("already mutably borrowed") {
        "refcell-borrow".into()
    } else if m.contains("divide by zero") || m.contains("remainder with a divisor of zero") {
        "int-div-zero".into()
    } else if m.contains("index out of bounds") {
        "index-oob".into()
    } else if m.contains("assertion") {
        "assertion".into()
    } else {
        let s: String = m.chars().take(40).collect();
        format!("other:{}", s)
    }
}

thread_local! {
    pub static TICKS: RefCell<Vec<i64>> = RefCell::new(Vec::new());
    static LAST_PANIC: RefCell<String> = RefCell::new(String::new());
    static IN_GUARD: std::cell::Cell<u32> = std::cell::Cell::new(0);
}

/// Install a process-wide silent panic hook that records message (+ location) per thread.
pub fn install_panic_hook() {
    std::panic::set_hook(Box::new(|info| {
        let msg = if let Some(s) = info.payload().downcast_ref::<&str>() {
            s.to_string()
        } else if let Some(s) = info.payload().downcast_ref::<String>() {
            s.clone()
        } else {
            "<non-string panic>".to_string()
        };
        let loc = info
            .location()
            .map(|l| format!(" @{}:{}", l.file(), l.line()))
            .unwrap_or_default();
        if IN_GUARD.with(|g| g.get()) == 0 {
            eprintln!("MACHINERY-ERROR harness panic: {}{}", msg, loc);
        }
        LAST_PANIC.with(|p| *p.borrow_mut() = format!("{}{}", msg, loc));
    }));
}

/// The implementation failed at something every check takes for granted on a correct tree
/// (constructing an interpreter, evaluating the harness's own valid setup code, registering a
/// well-formed library source). That is a verdict about the implementation, not a machinery
/// failure: write a replay record, print the VIOLATION line and end the check with status 1.
pub fn impl_fail(what: &str) -> ! {
    let id = crate::CURRENT_ID.get().cloned().unwrap_or_else(|| "C00".to_string());
    let dir = std::path::Path::new(crate::report::VERIF).join("replays");
    let _ = std::fs::create_dir_all(&dir);
    let path = dir.join(format!("{}-setup.json", id));
    let _ = std::fs::write(&path, serde_json::json!({"property": id, "case": "harness precondition on the implementation", "observed": what, "payload": {"kind": "setup"}}).to_string());
    use std::io::Write;
    let _ = std::io::stdout().flush();
    // evaluated programs may have been silenced: the verdict goes to the real stdout
    let real = REAL_STDOUT.load(std::sync::atomic::Ordering::SeqCst);
    if real >= 0 {
        unsafe {
            libc::dup2(real, 1);
        }
    }
    println!("VIOLATION property={} replay={}", id, path.display());
    println!("  case: a precondition of the check fails on this tree");
    println!("  observed: {}", what);
    let _ = std::io::stdout().flush();
    std::process::exit(1);
}

pub fn take_panic() -> String {
    LAST_PANIC.with(|p| std::mem::take(&mut *p.borrow_mut()))
}

pub fn take_ticks() -> Vec<i64> {
    TICKS.with(|t| std::mem::take(&mut *t.borrow_mut()))
}

/// Run `f` catching panics; the panic message is returned as Err.
pub fn guarded<T>(f: impl FnOnce() -> T) -> Result<T, String> {
    IN_GUARD.with(|g| g.set(g.get() + 1));
    let r = catch_unwind(AssertUnwindSafe(f));
    IN_GUARD.with(|g| g.set(g.get() - 1));
    match r {
        Ok(v) => Ok(v),
        Err(_) => Err(take_panic()),
    }
}

pub type It = Interpreter<'static, f32>;

pub fn tick_proc() -> Value<f32> {
    use ruschm::param_fixed;
    Value::Procedure(Procedure::new_builtin_impure(
        "tick".to_string(),
        param_fixed!["k", "e"],
        |args, _env| {
            let mut it = args.into_iter();
            let k = it.next().unwrap();
            let e = it.next().unwrap();
            if let Value::Number(Number::Integer(k)) = k {
                TICKS.with(|t| t.borrow_mut().push(k as i64));
            }
            Ok(e)
        },
    ))
}

pub struct Interp {
    pub it: It,
    base: Rc<Environment<f32>>,
}

impl Interp {
    /// new_with_stdlib + the harness's native `tick`
    pub fn new() -> Result<Interp, String> {
        guarded(|| {
            let it = It::new_with_stdlib();
            it.env.define("tick".to_string(), tick_proc());
            let base = it.env.clone();
            Interp { it, base }
        })
    }
    /// bare interpreter (no stdlib imported; like the CLI)
    pub fn bare() -> Result<Interp, String> {
        guarded(|| {
            let it = It::default();
            let base = it.env.clone();
            Interp { it, base }
        })
    }
    /// `new()`, a failure being a verdict about the implementation (see `impl_fail`)
    pub fn must_new() -> Interp {
        Self::new().unwrap_or_else(|p| impl_fail(&format!("Interpreter::new_with_stdlib() panics: {}", p)))
    }
    pub fn must_bare() -> Interp {
        Self::bare().unwrap_or_else(|p| impl_fail(&format!("Interpreter::default() panics: {}", p)))
    }
    /// pooled mode: run the next case in a fresh child frame of the stdlib frame
    pub fn fresh_frame(&mut self) {
        // closures defined by the previous case hold their frame and the frame holds them (an Rc
        // cycle): overwrite the previous frame's bindings so that it can be freed
        if !Rc::ptr_eq(&self.it.env, &self.base) {
            let names: Vec<String> = {
                let mut defs = self.it.env.iter_local_definitions();
                (&mut *defs).map(|(n, _)| n.clone()).collect()
            };
            for n in names {
                self.it.env.define(n, Value::Void);
            }
        }
        self.it.env = Rc::new(LexicalScope::new_child(self.base.clone()));
    }
    pub fn eval(&mut self, text: &str) -> Outcome {
        let it = &mut self.it;
        // hook H3: an evaluation that does not end within the budget becomes a reported error
        // (ErrKind::Other(NON_TERMINATION)), which no reference expects, instead of a hang
        ruschm::interpreter::verif_set_fuel(eval_fuel());
        let r = guarded(|| it.eval(text.chars()));
        // unlimited again: code that drives the interpreter directly must never run out
        ruschm::interpreter::verif_set_fuel(u64::MAX);
        match r {
            Ok(Ok(Some(v))) => Outcome::Val(obs_of(&v)),
            Ok(Ok(None)) => Outcome::Val(Obs::NoValue),
            // a reported error includes its message: the binary and the REPL print it
            Ok(Err(e)) => match guarded(|| format!("{}", e)) {
                Ok(_) => Outcome::Err(classify(&e), e.location),
                Err(p) => Outcome::Panic(format!("while formatting the error message: {}", p)),
            },
            Err(p) => Outcome::Panic(p),
        }
    }
    /// eval returning the raw value (for identity probes)
    pub fn eval_raw(&mut self, text: &str) -> Result<Option<Value<f32>>, Outcome> {
        let it = &mut self.it;
        ruschm::interpreter::verif_set_fuel(eval_fuel());
        let r = guarded(|| it.eval(text.chars()));
        ruschm::interpreter::verif_set_fuel(u64::MAX);
        match r {
            Ok(Ok(v)) => Ok(v),
            Ok(Err(e)) => Err(Outcome::Err(classify(&e), e.location)),
            Err(p) => Err(Outcome::Panic(p)),
        }
    }
    /// eval and collect the tick trace
    pub fn eval_traced(&mut self, text: &str) -> (Outcome, Vec<i64>) {
        take_ticks();
        let o = self.eval(text);
        (o, take_ticks())
    }
}

pub const NON_TERMINATION: &str = "no result within the evaluation budget (non-termination)";

thread_local! {
    static EVAL_FUEL: std::cell::Cell<u64> = std::cell::Cell::new(5_000_000);
}
/// procedure applications allowed per evaluated text on this thread (hook H3)
pub fn eval_fuel() -> u64 {
    EVAL_FUEL.with(|f| f.get())
}
pub fn set_eval_fuel(n: u64) {
    EVAL_FUEL.with(|f| f.set(n));
}

/// Run a closure on a fresh OS thread (fresh thread-local syntax table) with a large stack.
pub fn on_fresh_thread<T: Send + 'static>(f: impl FnOnce() -> T + Send + 'static) -> T {
    on_fresh_thread_with_stack(256 << 20, f)
}

pub fn on_fresh_thread_with_stack<T: Send + 'static>(stack: usize, f: impl FnOnce() -> T + Send + 'static) -> T {
    std::thread::Builder::new()
        .stack_size(stack)
        .spawn(f)
        .expect("spawn")
        .join()
        .expect("harness thread panicked outside guarded()")
}

/// Points fd 1 at /dev/null until dropped: evaluated programs that call display / newline write to
/// the process's stdout, which must not pollute (or forge lines of) the check's own report.
pub struct StdoutSilencer {
    saved: i32,
}
/// the real stdout while a silencer is active (-1 otherwise): verdict lines must still reach it
static REAL_STDOUT: std::sync::atomic::AtomicI32 = std::sync::atomic::AtomicI32::new(-1);
impl StdoutSilencer {
    pub fn new() -> StdoutSilencer {
        use std::io::Write;
        let _ = std::io::stdout().flush();
        unsafe {
            let saved = libc::dup(1);
            let devnull = libc::open(b"/dev/null\0".as_ptr() as *const libc::c_char, libc::O_WRONLY);
            if devnull >= 0 {
                libc::dup2(devnull, 1);
                libc::close(devnull);
            }
            REAL_STDOUT.store(saved, std::sync::atomic::Ordering::SeqCst);
            StdoutSilencer { saved }
        }
    }
}
impl Drop for StdoutSilencer {
    fn drop(&mut self) {
        use std::io::Write;
        let _ = std::io::stdout().flush();
        REAL_STDOUT.store(-1, std::sync::atomic::Ordering::SeqCst);
        unsafe {
            if self.saved >= 0 {
                libc::dup2(self.saved, 1);
                libc::close(self.saved);
            }
        }
    }
}

//! The number grid shared by C09, C10 and C16: literals and computed values, so that every
//! internal representation of a number occurs.
use crate::refnum::{exact, int, RNum};

pub struct GridNum {
    /// source text that produces the number (literal or small computation)
    pub text: String,
    pub val: RNum,
    pub computed: bool,
}

fn lit(text: &str, val: RNum) -> GridNum {
    GridNum { text: text.to_string(), val, computed: false }
}
fn comp(text: &str, val: RNum) -> GridNum {
    GridNum { text: text.to_string(), val, computed: true }
}
fn real(text: &str) -> GridNum {
    // the literal denotes the binary32 nearest to the decimal
    let v = text.parse::<f32>().unwrap();
    lit(text, RNum::Inexact(v))
}

pub fn grid(thorough: bool) -> Vec<GridNum> {
    let mut g = vec![];
    for i in [0i128, 1, -1, 2, 3, -3, 7, 10, -10] {
        g.push(lit(&format!("{}", i), int(i)));
    }
    for i in [
        32767i128, -32767, 32768, -32768, 16777215, 16777216, 16777217, -16777217, 2147483647,
        -2147483647, -2147483648, 65536, 46341,
    ] {
        g.push(lit(&format!("{}", i), int(i)));
    }
    for (a, b) in [
        (1i128, 2i128),
        (2, 4),
        (-1, 2),
        (-3, 4),
        (7, 2),
        (-7, 2),
        (1, 3),
        (2, 3),
        (-1, 3),
        (32767, 32766),
        (3, 32767),
        (-32767, 2),
        (6, 3),
        (0, 5),
        (1, 32767),
        (5, 1),
        // components at the ends of the exact range
        (-2147483648, 3),
        (2147483647, 2),
        (-2147483647, 2),
        (1, 2147483647),
        (-2147483648, 2147483647),
    ] {
        g.push(lit(&format!("{}/{}", a, b), exact(a, b)));
    }
    g.push(comp("(/ 1 -2)", exact(-1, 2)));
    g.push(comp("(/ -1 -2)", exact(1, 2)));
    g.push(comp("(/ 3 -4)", exact(-3, 4)));
    g.push(comp("(+ 1/2 1/2)", int(1)));
    g.push(comp("(* 2 1/2)", int(1)));
    g.push(comp("(- 1/2 1/2)", int(0)));
    g.push(comp("(/ 6 4)", exact(3, 2)));
    g.push(comp("(/ 4 2)", int(2)));
    g.push(comp("(/ -7 2)", exact(-7, 2)));
    g.push(comp("(- 0 1/3)", exact(-1, 3)));
    g.push(comp("(* -1 -1/2)", exact(1, 2)));
    g.push(comp("(/ 1/2 -1/3)", exact(-3, 2)));
    g.push(comp("(max 1/2 3)", int(3)));
    g.push(comp("(min 3 7/2)", int(3)));
    g.push(comp("(abs -1/2)", exact(1, 2)));
    g.push(comp("(floor 7/2)", int(3)));
    // integers that come out of operations on ratios (reciprocal of a unit fraction, products)
    g.push(comp("(/ 1/2)", int(2)));
    g.push(comp("(/ -1/3)", int(-3)));
    g.push(comp("(* 2/3 3/2)", int(1)));
    // numbers that come out of quoted data and vector literals (read by another path than literals)
    g.push(comp("(car '(4/2))", int(2)));
    g.push(comp("(car '(2/4 1))", exact(1, 2)));
    g.push(comp("(vector-ref '#(0/5 6/3) 1)", int(2)));
    g.push(comp("(car (cdr '(1 -6/4)))", exact(-3, 2)));
    g.push(comp("(vector-ref '#(1.5) 0)", RNum::Inexact(1.5)));
    for t in [
        "0.0", "-0.0", "0.5", "-2.5", "1.5", "3.0", "-3.0", "1e10", "16777216.0", "1e38", "1e-45",
        "0.1", "-1e10", "7.25",
    ] {
        g.push(real(t));
    }
    // neighbours: the binary32 numbers one unit in the last place above some grid reals (written
    // with their shortest round-trip spelling); equal under no comparison, ordered under all
    for t in ["0.1", "1.5", "-2.5", "7.25", "1e10"] {
        let x: f32 = t.parse().unwrap();
        let up = f32::from_bits(if x > 0.0 { x.to_bits() + 1 } else { x.to_bits() - 1 });
        let text = format!("{:?}", up);
        if !g.iter().any(|y: &GridNum| y.text == text) {
            g.push(real(&text));
        }
    }
    if thorough {
        for i in 4..=12i128 {
            for s in [1, -1] {
                if ![7, 10].contains(&i) || s == -1 && i == 7 {
                    g.push(lit(&format!("{}", s * i), int(s * i)));
                }
            }
        }
        for q in 2..=7i128 {
            for p in 1..=7i128 {
                for s in [1, -1] {
                    let t = format!("{}/{}", s * p, q);
                    if !g.iter().any(|x| x.text == t) {
                        g.push(lit(&t, exact(s * p, q)));
                    }
                }
            }
        }
        for t in ["0.25", "-0.75", "2.0", "100.5", "1e-10", "3.4e38", "-1.5", "0.3", "1e7", "8388608.5"] {
            g.push(real(t));
        }
        for i in [32766i128, -32766, 181, -181, 255, 256, 1000, -1000, 46340, -46340, 1073741824] {
            g.push(lit(&format!("{}", i), int(i)));
        }
    }
    g
}

//! Reference tokenizer for the supported lexical grammar (R7RS 7.1.1 restricted to the token classes
//! lexer.rs has scanners for). Tokens end only at delimiters. Shares no code with ruschm.
#[derive(Clone, Debug, PartialEq)]
pub enum Tok {
    LParen,
    RParen,
    VecOpen,
    Quote,
    Dot,
    Ident(String),
    Bool(bool),
    Char(char),
    Str(String),
    /// exact integer, by value
    Int(i128),
    /// exact ratio numerator / denominator as written (denominator > 0)
    Ratio(i128, i128),
    /// decimal, by value of the lexeme
    Real(f64),
}

#[derive(Clone, Debug, PartialEq)]
pub enum Lexed {
    Tokens(Vec<Tok>),
    /// valid R7RS lexical syntax that the interpreter does not claim to support
    /// (#true, named characters, #u8(, quasiquote, \x escapes, nested comments, #e/#x prefixes ...)
    Unsupported(&'static str),
    /// not a sequence of R7RS tokens: must be rejected
    Malformed(&'static str),
}

#[derive(Clone, Copy, Default)]
pub struct Mode {
    /// DEFECT MODEL: booleans and characters end without requiring a delimiter
    pub bool_char_undelimited: bool,
}

pub fn is_delimiter(c: char) -> bool {
    matches!(c, ' ' | '\t' | '\n' | '\r' | '(' | ')' | '"' | ';' | '|')
}
fn is_initial(c: char) -> bool {
    c.is_ascii_alphabetic() || "!$%&*/:<=>?^_~".contains(c)
}
fn is_subsequent(c: char) -> bool {
    is_initial(c) || c.is_ascii_digit() || "+-.@".contains(c)
}
fn is_sign_subsequent(c: char) -> bool {
    is_initial(c) || c == '+' || c == '-' || c == '@'
}

fn all_digits(s: &str) -> bool {
    !s.is_empty() && s.bytes().all(|b| b.is_ascii_digit())
}

/// classify a maximal delimiter-free lexeme that starts like a number or an identifier
fn classify(run: &str) -> Result<Tok, Lexed> {
    let cs: Vec<char> = run.chars().collect();
    if !run.is_ascii() {
        return Err(Lexed::Unsupported("non-ASCII identifier"));
    }
    let (sign, body) = match cs[0] {
        '+' | '-' => (Some(cs[0]), &run[1..]),
        _ => (None, run),
    };
    let b: Vec<char> = body.chars().collect();
    let numeric_start = !b.is_empty() && (b[0].is_ascii_digit() || (b[0] == '.' && b.len() > 1 && b[1].is_ascii_digit()));
    if numeric_start {
        // integer
        if all_digits(body) {
            return match run.parse::<i128>() {
                Ok(v) => Ok(Tok::Int(v)),
                Err(_) => Err(Lexed::Unsupported("integer literal too long")),
            };
        }
        // ratio
        if let Some((n, d)) = body.split_once('/') {
            if all_digits(n) && all_digits(d) {
                let (n, d) = match (n.parse::<i128>(), d.parse::<i128>()) {
                    (Ok(n), Ok(d)) => (n, d),
                    _ => return Err(Lexed::Unsupported("ratio literal too long")),
                };
                if d == 0 {
                    return Err(Lexed::Malformed("ratio with zero denominator"));
                }
                return Ok(Tok::Ratio(if sign == Some('-') { -n } else { n }, d));
            }
            return Err(Lexed::Malformed("bad ratio"));
        }
        // decimal: digits [. digits] | . digits, optional exponent
        let lower = body;
        let (mant, exp) = match lower.find('e') {
            Some(i) => (&lower[..i], Some(&lower[i + 1..])),
            None => (lower, None),
        };
        let mant_ok = {
            let (ip, fp) = match mant.split_once('.') {
                Some((a, b)) => (a, Some(b)),
                None => (mant, None),
            };
            let ip_ok = ip.is_empty() || all_digits(ip);
            let fp_ok = fp.map(|f| f.is_empty() || all_digits(f)).unwrap_or(true);
            let some_digit = !ip.is_empty() || fp.map(|f| !f.is_empty()).unwrap_or(false);
            ip_ok && fp_ok && some_digit
        };
        let exp_ok = match exp {
            None => true,
            Some(e) => {
                let e = e.strip_prefix('+').or_else(|| e.strip_prefix('-')).unwrap_or(e);
                all_digits(e)
            }
        };
        if mant_ok && exp_ok && (mant.contains('.') || exp.is_some()) {
            return match run.parse::<f64>() {
                Ok(v) => Ok(Tok::Real(v)),
                Err(_) => Err(Lexed::Malformed("bad decimal")),
            };
        }
        if body.bytes().any(|c| c.is_ascii_uppercase()) || body.contains('#') || body.contains('i') && body.ends_with('i') {
            return Err(Lexed::Unsupported("number syntax outside the supported subset"));
        }
        return Err(Lexed::Malformed("token starts like a number but is not one"));
    }
    // identifiers
    if let Some(_s) = sign {
        // peculiar identifier: sign | sign sign-subsequent subsequent* | sign . dot-subsequent subsequent*
        if b.is_empty() {
            return Ok(Tok::Ident(run.to_string()));
        }
        if run == "+inf.0" || run == "-inf.0" || run == "+nan.0" || run == "-nan.0" || run == "+i" || run == "-i" {
            return Err(Lexed::Unsupported("special number"));
        }
        if is_sign_subsequent(b[0]) {
            return if b[1..].iter().all(|c| is_subsequent(*c)) { Ok(Tok::Ident(run.to_string())) } else { Err(Lexed::Malformed("bad character in identifier")) };
        }
        if b[0] == '.' {
            if b.len() >= 2 && (is_sign_subsequent(b[1]) || b[1] == '.') {
                return if b[2..].iter().all(|c| is_subsequent(*c)) { Ok(Tok::Ident(run.to_string())) } else { Err(Lexed::Malformed("bad character in identifier")) };
            }
            return Err(Lexed::Malformed("sign-dot without dot-subsequent"));
        }
        return Err(Lexed::Malformed("bad peculiar identifier"));
    }
    if cs[0] == '.' {
        if cs.len() == 1 {
            return Ok(Tok::Dot);
        }
        if is_sign_subsequent(cs[1]) || cs[1] == '.' {
            return if cs[2..].iter().all(|c| is_subsequent(*c)) { Ok(Tok::Ident(run.to_string())) } else { Err(Lexed::Malformed("bad character in identifier")) };
        }
        return Err(Lexed::Malformed("dot followed by a non dot-subsequent"));
    }
    if is_initial(cs[0]) {
        return if cs[1..].iter().all(|c| is_subsequent(*c)) { Ok(Tok::Ident(run.to_string())) } else { Err(Lexed::Malformed("bad character in identifier")) };
    }
    if cs[0] == '@' {
        // R7RS has no token that starts with @; the implementation reads one as an identifier.
        // An extension on text outside the lexical grammar: not judged
        return Err(Lexed::Unsupported("atom starting with @ (outside the R7RS lexical grammar)"));
    }
    Err(Lexed::Malformed("unexpected character"))
}

pub fn tokenize(text: &str, mode: Mode) -> Lexed {
    let cs: Vec<char> = text.chars().collect();
    let mut i = 0;
    let mut out = vec![];
    let n = cs.len();
    while i < n {
        let c = cs[i];
        match c {
            ' ' | '\t' | '\n' | '\r' => i += 1,
            ';' => {
                while i < n && cs[i] != '\n' && cs[i] != '\r' {
                    i += 1;
                }
            }
            '(' => {
                out.push(Tok::LParen);
                i += 1;
            }
            ')' => {
                out.push(Tok::RParen);
                i += 1;
            }
            '\'' => {
                out.push(Tok::Quote);
                i += 1;
            }
            '`' | ',' => return Lexed::Unsupported("quasiquote"),
            '"' => {
                i += 1;
                let mut s = String::new();
                loop {
                    if i >= n {
                        return Lexed::Malformed("unterminated string");
                    }
                    let d = cs[i];
                    i += 1;
                    match d {
                        '"' => break,
                        '\\' => {
                            if i >= n {
                                return Lexed::Malformed("unterminated string");
                            }
                            let e = cs[i];
                            i += 1;
                            match e {
                                'a' => s.push('\u{7}'),
                                'b' => s.push('\u{8}'),
                                't' => s.push('\t'),
                                'n' => s.push('\n'),
                                'r' => s.push('\r'),
                                '"' => s.push('"'),
                                '\\' => s.push('\\'),
                                '|' => s.push('|'),
                                'x' | ' ' | '\t' | '\n' | '\r' => return Lexed::Unsupported("hex or line-continuation escape"),
                                _ => return Lexed::Malformed("unknown string escape"),
                            }
                        }
                        d => s.push(d),
                    }
                }
                out.push(Tok::Str(s));
            }
            '|' => {
                i += 1;
                let mut s = String::new();
                loop {
                    if i >= n {
                        return Lexed::Malformed("unterminated |identifier|");
                    }
                    let d = cs[i];
                    i += 1;
                    if d == '|' {
                        break;
                    }
                    if d == '\\' {
                        return Lexed::Unsupported("escape inside |identifier|");
                    }
                    s.push(d);
                }
                out.push(Tok::Ident(s));
            }
            '#' => {
                if i + 1 >= n {
                    return Lexed::Malformed("lone #");
                }
                match cs[i + 1] {
                    '(' => {
                        out.push(Tok::VecOpen);
                        i += 2;
                    }
                    't' | 'f' => {
                        let v = cs[i + 1] == 't';
                        let mut j = i + 2;
                        if mode.bool_char_undelimited {
                            out.push(Tok::Bool(v));
                            i = j;
                            continue;
                        }
                        while j < n && !is_delimiter(cs[j]) {
                            j += 1;
                        }
                        let rest: String = cs[i + 2..j].iter().collect();
                        if rest.is_empty() {
                            out.push(Tok::Bool(v));
                            i = j;
                        } else if (v && rest == "rue") || (!v && rest == "alse") {
                            return Lexed::Unsupported("#true / #false");
                        } else {
                            return Lexed::Malformed("boolean not followed by a delimiter");
                        }
                    }
                    '\\' => {
                        if i + 2 >= n {
                            return Lexed::Malformed("#\\ at end of input");
                        }
                        let ch = cs[i + 2];
                        let mut j = i + 3;
                        if mode.bool_char_undelimited {
                            out.push(Tok::Char(ch));
                            i = j;
                            continue;
                        }
                        while j < n && !is_delimiter(cs[j]) {
                            j += 1;
                        }
                        if j == i + 3 {
                            out.push(Tok::Char(ch));
                            i = j;
                        } else if ch.is_ascii_alphabetic() && cs[i + 3..j].iter().all(|c| c.is_ascii_alphanumeric()) {
                            return Lexed::Unsupported("named or hex character");
                        } else {
                            return Lexed::Malformed("character not followed by a delimiter");
                        }
                    }
                    'u' => return Lexed::Unsupported("bytevector"),
                    ';' | '|' => return Lexed::Unsupported("datum / block comment"),
                    'e' | 'i' | 'x' | 'b' | 'o' | 'd' | 'E' | 'I' | 'X' | 'B' | 'O' | 'D' => return Lexed::Unsupported("number prefix"),
                    '!' => return Lexed::Unsupported("directive"),
                    '0'..='9' => return Lexed::Unsupported("datum label"),
                    'T' | 'F' => return Lexed::Unsupported("upper-case boolean"),
                    _ => return Lexed::Malformed("unknown # syntax"),
                }
            }
            _ => {
                let mut j = i;
                while j < n && !is_delimiter(cs[j]) {
                    j += 1;
                }
                let run: String = cs[i..j].iter().collect();
                // a quote inside a run is not a delimiter: the run is malformed unless it IS at a token start
                match classify(&run) {
                    Ok(t) => out.push(t),
                    Err(l) => return l,
                }
                i = j;
            }
        }
    }
    Lexed::Tokens(out)
}

#[cfg(test)]
mod tests {
    use super::*;
    fn toks(s: &str) -> Lexed {
        tokenize(s, Mode::default())
    }
    #[test]
    fn pinned_vectors_of_the_repository_lexer_tests() {
        use Tok::*;
        let id = |s: &str| Ident(s.to_string());
        assert_eq!(
            toks("\n ... +\n +soup+ <=?\n ->string a34kTMNs\n lambda list->vector\n q V17a\n |two words| |two; words|"),
            Lexed::Tokens(vec![id("..."), id("+"), id("+soup+"), id("<=?"), id("->string"), id("a34kTMNs"), id("lambda"), id("list->vector"), id("q"), id("V17a"), id("two words"), id("two; words")])
        );
        assert_eq!(
            toks("+123 123 -123 1.23 -12.34 1. 0. +.0 -.1 1e10 1.3e20 -43.e-12 +.12e+12 1/2 +1/2 -32/3"),
            Lexed::Tokens(vec![Int(123), Int(123), Int(-123), Real(1.23), Real(-12.34), Real(1.0), Real(0.0), Real(0.0), Real(-0.1), Real(1e10), Real(1.3e20), Real(-43e-12), Real(0.12e12), Ratio(1, 2), Ratio(1, 2), Ratio(-32, 3)])
        );
        assert_eq!(toks("\t(- \n4\r(+ 1 2)) ...)"), Lexed::Tokens(vec![LParen, id("-"), Int(4), LParen, id("+"), Int(1), Int(2), RParen, RParen, id("..."), RParen]));
        assert_eq!(toks("\"()+-123\"\"\\\"\"\"\\a\\b\\t\\r\\n\\\\\\|\""), Lexed::Tokens(vec![Str("()+-123".into()), Str("\"".into()), Str("\u{7}\u{8}\t\r\n\\|".into())]));
        assert_eq!(toks("#\\a #\\  #\\\t"), Lexed::Tokens(vec![Char('a'), Char(' '), Char('\t')]));
        assert!(matches!(toks("1/0"), Lexed::Malformed(_)));
    }
    #[test]
    fn delimiter_termination() {
        assert!(matches!(toks("1/2/3"), Lexed::Malformed(_)));
        assert!(matches!(toks("1e2e3"), Lexed::Malformed(_)));
        assert!(matches!(toks("#t#f"), Lexed::Malformed(_)));
        assert!(matches!(toks("#true"), Lexed::Unsupported(_)));
        assert!(matches!(toks("#\\space"), Lexed::Unsupported(_)));
        assert_eq!(toks("->x"), Lexed::Tokens(vec![Tok::Ident("->x".into())]));
        assert_eq!(toks("+.a"), Lexed::Tokens(vec![Tok::Ident("+.a".into())]));
        assert_eq!(toks("a.b .. ."), Lexed::Tokens(vec![Tok::Ident("a.b".into()), Tok::Ident("..".into()), Tok::Dot]));
        assert!(matches!(toks("+."), Lexed::Malformed(_)));
        assert!(matches!(toks("1+"), Lexed::Malformed(_)));
        assert_eq!(tokenize("#t#f", Mode { bool_char_undelimited: true }), Lexed::Tokens(vec![Tok::Bool(true), Tok::Bool(false)]));
    }
}

// ---------------------------------------------------------------------------------------------
// reference reader: tokens -> data

use crate::sexp::Sx;

#[derive(Debug, PartialEq)]
pub enum ReadError {
    Incomplete,
    Unexpected(&'static str),
    /// exact integer outside the implementation's fixnum range (reading is out of the claim)
    OutOfRange,
}

pub fn read_all(toks: &[Tok]) -> Result<Vec<Sx>, ReadError> {
    let mut p = 0;
    let mut out = vec![];
    while p < toks.len() {
        out.push(read_datum(toks, &mut p)?);
    }
    Ok(out)
}

fn atom(t: &Tok) -> Result<Sx, ReadError> {
    Ok(match t {
        Tok::Ident(s) => Sx::Sym(s.clone()),
        Tok::Bool(b) => Sx::Bool(*b),
        Tok::Char(c) => Sx::Char(*c),
        Tok::Str(s) => Sx::Str(s.clone()),
        Tok::Int(v) => {
            if *v < i32::MIN as i128 || *v > i32::MAX as i128 {
                return Err(ReadError::OutOfRange);
            }
            Sx::Int(*v as i64)
        }
        Tok::Ratio(n, d) => {
            if n.abs() > i32::MAX as i128 || *d > i32::MAX as i128 {
                return Err(ReadError::OutOfRange);
            }
            Sx::Rat(*n as i64, *d as i64)
        }
        Tok::Real(v) => Sx::Real(format!("{:e}", v)),
        _ => unreachable!(),
    })
}

fn read_datum(toks: &[Tok], p: &mut usize) -> Result<Sx, ReadError> {
    if *p >= toks.len() {
        return Err(ReadError::Incomplete);
    }
    let t = &toks[*p];
    *p += 1;
    match t {
        Tok::LParen => {
            let mut items = vec![];
            loop {
                if *p >= toks.len() {
                    return Err(ReadError::Incomplete);
                }
                match &toks[*p] {
                    Tok::RParen => {
                        *p += 1;
                        return Ok(Sx::List(items));
                    }
                    Tok::Dot => {
                        if items.is_empty() {
                            return Err(ReadError::Unexpected("dot at the start of a list"));
                        }
                        *p += 1;
                        let tail = read_datum(toks, p)?;
                        if *p >= toks.len() {
                            return Err(ReadError::Incomplete);
                        }
                        if toks[*p] != Tok::RParen {
                            return Err(ReadError::Unexpected("more than one datum after the dot"));
                        }
                        *p += 1;
                        // (a . (b c)) is the list (a b c)
                        return Ok(match tail {
                            Sx::List(t) => {
                                items.extend(t);
                                Sx::List(items)
                            }
                            Sx::Dotted(t, tt) => {
                                items.extend(t);
                                Sx::Dotted(items, tt)
                            }
                            other => Sx::Dotted(items, Box::new(other)),
                        });
                    }
                    _ => items.push(read_datum(toks, p)?),
                }
            }
        }
        Tok::VecOpen => {
            let mut items = vec![];
            loop {
                if *p >= toks.len() {
                    return Err(ReadError::Incomplete);
                }
                match &toks[*p] {
                    Tok::RParen => {
                        *p += 1;
                        return Ok(Sx::Vector(items));
                    }
                    Tok::Dot => return Err(ReadError::Unexpected("dot in a vector")),
                    _ => items.push(read_datum(toks, p)?),
                }
            }
        }
        Tok::Quote => {
            let d = read_datum(toks, p)?;
            Ok(Sx::List(vec![Sx::Sym("quote".into()), d]))
        }
        Tok::RParen => Err(ReadError::Unexpected("unbalanced )")),
        Tok::Dot => Err(ReadError::Unexpected("dot outside a list")),
        a => atom(a),
    }
}

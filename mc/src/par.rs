//! Deterministic parallel sweep: the index space [0, n) is handed out in chunks to worker threads,
//! each with its own worker state (an interpreter) and accumulator; accumulators are merged.
use crate::report::Acc;
use std::sync::atomic::{AtomicU64, Ordering};
use std::sync::Mutex;

pub fn nthreads() -> usize {
    std::env::var("MC_THREADS")
        .ok()
        .and_then(|s| s.parse().ok())
        .unwrap_or_else(|| std::thread::available_parallelism().map(|n| n.get()).unwrap_or(8))
        .max(1)
}

/// `init(worker_no)` builds the per-thread state ON the worker thread (interpreters are !Send);
/// `step(state, acc, index)` judges one case.
pub fn sweep<W>(
    n: u64,
    chunk: u64,
    init: impl Fn(usize) -> W + Sync,
    step: impl Fn(&mut W, &mut Acc, u64) + Sync,
) -> Acc {
    let next = AtomicU64::new(0);
    let total = Mutex::new(Acc::new());
    let nt = nthreads().min(((n + chunk - 1) / chunk).max(1) as usize);
    std::thread::scope(|s| {
        for w in 0..nt {
            let next = &next;
            let total = &total;
            let init = &init;
            let step = &step;
            std::thread::Builder::new()
                .stack_size(512 << 20)
                .spawn_scoped(s, move || {
                    let mut state = init(w);
                    let mut acc = Acc::new();
                    loop {
                        let start = next.fetch_add(chunk, Ordering::Relaxed);
                        if start >= n {
                            break;
                        }
                        let end = (start + chunk).min(n);
                        for i in start..end {
                            step(&mut state, &mut acc, i);
                        }
                    }
                    total.lock().unwrap().merge(acc);
                })
                .expect("spawn worker");
        }
    });
    total.into_inner().unwrap()
}

/// Parallel map preserving index order. `init` runs on each worker thread.
pub fn pmap<W, R: Send>(n: usize, chunk: usize, init: impl Fn(usize) -> W + Sync, f: impl Fn(&mut W, usize) -> R + Sync) -> Vec<R> {
    let next = AtomicU64::new(0);
    let out: Mutex<Vec<(usize, R)>> = Mutex::new(Vec::with_capacity(n));
    let nt = nthreads().min(((n + chunk - 1) / chunk).max(1));
    std::thread::scope(|s| {
        for w in 0..nt {
            let next = &next;
            let out = &out;
            let init = &init;
            let f = &f;
            std::thread::Builder::new()
                .stack_size(512 << 20)
                .spawn_scoped(s, move || {
                    let mut state = init(w);
                    let mut local = vec![];
                    loop {
                        let start = next.fetch_add(chunk as u64, Ordering::Relaxed) as usize;
                        if start >= n {
                            break;
                        }
                        for i in start..(start + chunk).min(n) {
                            local.push((i, f(&mut state, i)));
                        }
                    }
                    out.lock().unwrap().extend(local);
                })
                .expect("spawn worker");
        }
    });
    let mut v = out.into_inner().unwrap();
    v.sort_by_key(|x| x.0);
    v.into_iter().map(|x| x.1).collect()
}

//! Reference semantics: a definitional evaluator over `Sx` trees, written from the R7RS text.
//! Derived forms are implemented directly (hygienic by construction), not by expansion.
//! Shares no code with ruschm.
use crate::drive::{ErrKind, Obs, Outcome};
use crate::refnum::{self, RNum};
use crate::sexp::Sx;
use std::cell::RefCell;
use std::collections::HashMap;
use std::rc::Rc;

#[derive(Clone)]
pub enum RVal {
    Num(RNum),
    Bool(bool),
    Char(char),
    Str(Rc<str>),
    Sym(Rc<str>),
    Nil,
    Pair(Rc<(RVal, RVal)>),
    Vector(Rc<RVec>),
    Proc(Rc<RProc>),
    /// a result R7RS leaves unspecified: matches any implementation value
    Unspec,
    /// internal: letrec* variable not yet initialised
    Unassigned,
}

pub struct RVec {
    pub id: u64,
    pub mutable: bool,
    pub items: RefCell<Vec<RVal>>,
}

pub enum RProc {
    Closure { params: Vec<String>, rest: Option<String>, body: Rc<Vec<Sx>>, env: Env },
    Prim(&'static str),
}

pub struct Frame {
    vars: RefCell<HashMap<String, Rc<RefCell<RVal>>>>,
    pub parent: Option<Env>,
}
pub type Env = Rc<Frame>;

thread_local! {
    /// every frame created on this thread since the last `Machine::new`, so that the machine can
    /// break closure<->frame reference cycles when it is dropped
    static FRAMES: RefCell<Vec<std::rc::Weak<Frame>>> = RefCell::new(Vec::new());
}

pub fn new_env(parent: Option<Env>) -> Env {
    let f = Rc::new(Frame { vars: RefCell::new(HashMap::new()), parent });
    FRAMES.with(|fr| fr.borrow_mut().push(Rc::downgrade(&f)));
    f
}

impl Drop for Machine {
    fn drop(&mut self) {
        let frames: Vec<_> = FRAMES.with(|fr| std::mem::take(&mut *fr.borrow_mut()));
        for w in frames {
            if let Some(f) = w.upgrade() {
                f.vars.borrow_mut().clear();
            }
        }
    }
}

impl Frame {
    pub fn lookup(&self, name: &str) -> Option<Rc<RefCell<RVal>>> {
        if let Some(c) = self.vars.borrow().get(name) {
            return Some(c.clone());
        }
        match &self.parent {
            Some(p) => p.lookup(name),
            None => None,
        }
    }
    pub fn define(&self, name: &str, v: RVal) {
        // a definition of an already-bound name in the same frame re-uses the location
        // (R7RS 5.3.1: equivalent to an assignment), so earlier closures see the new value
        let existing = self.vars.borrow().get(name).cloned();
        match existing {
            Some(c) => *c.borrow_mut() = v,
            None => {
                self.vars.borrow_mut().insert(name.to_string(), Rc::new(RefCell::new(v)));
            }
        }
    }
    pub fn is_bound_here(&self, name: &str) -> bool {
        self.vars.borrow().contains_key(name)
    }
    pub fn local_names(&self) -> Vec<String> {
        let mut v: Vec<String> = self.vars.borrow().keys().cloned().collect();
        v.sort();
        v
    }
}

pub type RResult = Result<RVal, ErrKind>;

/// operand evaluation order policy (R7RS leaves it unspecified)
#[derive(Clone, Copy, PartialEq, Eq, Debug)]
pub struct Policy {
    pub left_to_right: bool,
    pub operator_first: bool,
}
pub const POLICIES: [Policy; 4] = [
    Policy { left_to_right: true, operator_first: true },
    Policy { left_to_right: true, operator_first: false },
    Policy { left_to_right: false, operator_first: true },
    Policy { left_to_right: false, operator_first: false },
];

/// Switches that turn the reference into a DEFECT MODEL (used only to recognise known findings)
#[derive(Clone, Copy, Default, Debug, PartialEq, Eq)]
pub struct Quirks {
    /// derived forms expand non-hygienically: `or` binds its temporary as `x`, `cond` as `temp`,
    /// `case` as `atom-key`, and the free identifiers `not`, `memv`, `null?` of the templates
    /// resolve at the use site
    pub unhygienic: bool,
    /// a top-level `begin` is a procedure body: its definitions are local to it
    pub begin_local: bool,
}

pub struct Machine {
    pub quirks: Quirks,
    pub trace: Vec<i64>,
    pub policy: Policy,
    pub out: String,
    pub fuel: u64,
    next_id: u64,
    pub global: Env,
    /// top-level `begin` splices definitions into the top level (R7RS 5.1)
    depth: u32,
}

const PRIMS: &[(&str, usize, Option<usize>)] = &[
    ("apply", 1, None),
    ("car", 1, Some(1)),
    ("cdr", 1, Some(1)),
    ("cons", 2, Some(2)),
    ("eqv?", 2, Some(2)),
    ("eq?", 2, Some(2)),
    ("equal?", 2, Some(2)),
    ("boolean?", 1, Some(1)),
    ("char?", 1, Some(1)),
    ("number?", 1, Some(1)),
    ("string?", 1, Some(1)),
    ("symbol?", 1, Some(1)),
    ("pair?", 1, Some(1)),
    ("procedure?", 1, Some(1)),
    ("vector?", 1, Some(1)),
    ("null?", 1, Some(1)),
    ("list?", 1, Some(1)),
    ("not", 1, Some(1)),
    ("+", 0, None),
    ("*", 0, None),
    ("-", 1, None),
    ("/", 1, None),
    ("=", 0, None),
    ("<", 0, None),
    (">", 0, None),
    ("<=", 0, None),
    (">=", 0, None),
    ("abs", 1, Some(1)),
    ("min", 1, None),
    ("max", 1, None),
    ("floor", 1, Some(1)),
    ("ceiling", 1, Some(1)),
    ("floor-quotient", 2, Some(2)),
    ("floor-remainder", 2, Some(2)),
    ("vector", 0, None),
    ("make-vector", 2, Some(2)),
    ("vector-length", 1, Some(1)),
    ("vector-ref", 2, Some(2)),
    ("vector-set!", 3, Some(3)),
    ("caar", 1, Some(1)),
    ("cadr", 1, Some(1)),
    ("cdar", 1, Some(1)),
    ("cddr", 1, Some(1)),
    ("caaar", 1, Some(1)),
    ("caadr", 1, Some(1)),
    ("cadar", 1, Some(1)),
    ("caddr", 1, Some(1)),
    ("cdaar", 1, Some(1)),
    ("cdadr", 1, Some(1)),
    ("cddar", 1, Some(1)),
    ("cdddr", 1, Some(1)),
    ("list", 0, None),
    ("make-list", 2, Some(2)),
    ("append", 0, None),
    ("memq", 2, Some(2)),
    ("memv", 2, Some(2)),
    ("map", 2, Some(2)),
    ("for-each", 2, Some(2)),
    ("fold-left", 3, Some(3)),
    ("fold-right", 3, Some(3)),
    ("list-tail", 2, Some(2)),
    ("list-ref", 2, Some(2)),
    ("last-pair", 1, Some(1)),
    ("display", 1, Some(1)),
    ("newline", 0, Some(0)),
    ("tick", 2, Some(2)),
];

fn wrong() -> ErrKind {
    ErrKind::WrongType
}
/// a non-list where map / for-each / fold-left / fold-right need a list: "it is an error" in R7RS,
/// i.e. the behaviour is unspecified
pub fn unspecified_nonlist() -> ErrKind {
    ErrKind::Other("unspecified:non-list-argument".into())
}

pub fn list_from(items: Vec<RVal>, tail: RVal) -> RVal {
    let mut t = tail;
    for x in items.into_iter().rev() {
        t = RVal::Pair(Rc::new((x, t)));
    }
    t
}

/// elements of a proper list, or None
pub fn list_items(v: &RVal) -> Option<Vec<RVal>> {
    let mut out = vec![];
    let mut cur = v.clone();
    loop {
        match cur {
            RVal::Nil => return Some(out),
            RVal::Pair(p) => {
                out.push(p.0.clone());
                cur = p.1.clone();
            }
            _ => return None,
        }
    }
}

impl RVal {
    pub fn truthy(&self) -> bool {
        !matches!(self, RVal::Bool(false))
    }
    pub fn int(i: i64) -> RVal {
        RVal::Num(refnum::int(i as i128))
    }
    pub fn sym(s: &str) -> RVal {
        RVal::Sym(Rc::from(s))
    }
}

pub fn eqv(a: &RVal, b: &RVal) -> bool {
    match (a, b) {
        (RVal::Num(x), RVal::Num(y)) => x.eqv(*y),
        (RVal::Bool(x), RVal::Bool(y)) => x == y,
        (RVal::Char(x), RVal::Char(y)) => x == y,
        (RVal::Sym(x), RVal::Sym(y)) => x == y,
        (RVal::Nil, RVal::Nil) => true,
        (RVal::Str(x), RVal::Str(y)) => Rc::ptr_eq(x, y),
        (RVal::Pair(x), RVal::Pair(y)) => Rc::ptr_eq(x, y),
        (RVal::Vector(x), RVal::Vector(y)) => Rc::ptr_eq(x, y),
        (RVal::Proc(x), RVal::Proc(y)) => Rc::ptr_eq(x, y),
        _ => false,
    }
}

pub fn equal(a: &RVal, b: &RVal) -> bool {
    match (a, b) {
        (RVal::Pair(x), RVal::Pair(y)) => equal(&x.0, &y.0) && equal(&x.1, &y.1),
        (RVal::Str(x), RVal::Str(y)) => x == y,
        (RVal::Vector(x), RVal::Vector(y)) => {
            let (x, y) = (x.items.borrow(), y.items.borrow());
            x.len() == y.len() && x.iter().zip(y.iter()).all(|(p, q)| equal(p, q))
        }
        _ => eqv(a, b),
    }
}

/// external representation as `display` writes it (used where the format is not in question:
/// exact numbers, symbols, strings, booleans, lists, vectors)
pub fn display_string(v: &RVal) -> String {
    match v {
        RVal::Num(n) => match n {
            RNum::Exact(a, 1) => format!("{}", a),
            RNum::Exact(a, b) => format!("{}/{}", a, b),
            RNum::Inexact(f) => format!("{:?}", f),
        },
        RVal::Bool(true) => "#t".into(),
        RVal::Bool(false) => "#f".into(),
        RVal::Char(c) => format!("#\\{}", c),
        RVal::Str(s) => s.to_string(),
        RVal::Sym(s) => s.to_string(),
        RVal::Nil => "()".into(),
        RVal::Pair(_) => {
            let mut s = String::from("(");
            let mut cur = v.clone();
            let mut first = true;
            loop {
                match cur {
                    RVal::Pair(p) => {
                        if !first {
                            s.push(' ');
                        }
                        first = false;
                        s.push_str(&display_string(&p.0));
                        cur = p.1.clone();
                    }
                    RVal::Nil => break,
                    o => {
                        s.push_str(" . ");
                        s.push_str(&display_string(&o));
                        break;
                    }
                }
            }
            s.push(')');
            s
        }
        RVal::Vector(vc) => {
            let items: Vec<String> = vc.items.borrow().iter().map(display_string).collect();
            format!("#({})", items.join(" "))
        }
        RVal::Proc(_) => "#<procedure>".into(),
        RVal::Unspec | RVal::Unassigned => "#<unspecified>".into(),
    }
}

impl std::fmt::Display for RVal {
    fn fmt(&self, f: &mut std::fmt::Formatter) -> std::fmt::Result {
        match self {
            RVal::Str(s) => write!(f, "{:?}", s),
            RVal::Num(n) => write!(f, "{}", n),
            RVal::Unspec => write!(f, "#<unspecified>"),
            v => write!(f, "{}", display_string(v)),
        }
    }
}

/// does the implementation observation agree with the reference value?
pub fn rmatch(r: &RVal, o: &Obs) -> bool {
    match (r, o) {
        (RVal::Unspec, _) => true,
        (RVal::Num(n), o) => refnum::matches(n, o),
        (RVal::Bool(a), Obs::Bool(b)) => a == b,
        (RVal::Char(a), Obs::Char(b)) => a == b,
        (RVal::Str(a), Obs::Str(b)) => &**a == b.as_str(),
        (RVal::Sym(a), Obs::Sym(b)) => &**a == b.as_str(),
        (RVal::Nil, Obs::Nil) => true,
        (RVal::Pair(p), Obs::Pair(a, d)) => rmatch(&p.0, a) && rmatch(&p.1, d),
        (RVal::Vector(v), Obs::Vector(_, items)) => {
            let v = v.items.borrow();
            v.len() == items.len() && v.iter().zip(items.iter()).all(|(x, y)| rmatch(x, y))
        }
        (RVal::Proc(_), Obs::Proc) => true,
        _ => false,
    }
}

pub fn outcome_matches(r: &RResult, o: &Outcome) -> bool {
    match (r, o) {
        (Ok(v), Outcome::Val(ob)) => rmatch(v, ob),
        (Err(k), Outcome::Err(k2, _)) => k == k2,
        _ => false,
    }
}

pub fn show_result(r: &RResult) -> String {
    match r {
        Ok(v) => format!("{}", v),
        Err(k) => format!("error {:?}", k),
    }
}

impl Machine {
    pub fn new(policy: Policy) -> Machine {
        let global = new_env(None);
        for (name, _, _) in PRIMS {
            global.define(name, RVal::Proc(Rc::new(RProc::Prim(name))));
        }
        // user programs run in a child of the library frame so that re-defining a library name
        // (e.g. `list`) does not change what other library procedures do
        let user = new_env(Some(global));
        Machine { quirks: Quirks::default(), trace: vec![], policy, out: String::new(), fuel: 2_000_000, next_id: 1, global: user, depth: 0 }
    }

    pub fn new_vector(&mut self, items: Vec<RVal>, mutable: bool) -> RVal {
        let id = self.next_id;
        self.next_id += 1;
        RVal::Vector(Rc::new(RVec { id, mutable, items: RefCell::new(items) }))
    }

    pub fn datum(&mut self, x: &Sx) -> RVal {
        match x {
            Sx::Int(i) => RVal::Num(refnum::int(*i as i128)),
            Sx::Rat(a, b) => RVal::Num(refnum::exact(*a as i128, *b as i128)),
            Sx::Real(t) => RVal::Num(RNum::Inexact(t.parse::<f32>().unwrap())),
            Sx::Bool(b) => RVal::Bool(*b),
            Sx::Char(c) => RVal::Char(*c),
            Sx::Str(s) => RVal::Str(Rc::from(s.as_str())),
            Sx::Sym(s) => RVal::Sym(Rc::from(s.as_str())),
            Sx::List(v) => {
                let items = v.iter().map(|i| self.datum(i)).collect();
                list_from(items, RVal::Nil)
            }
            Sx::Dotted(v, t) => {
                let items = v.iter().map(|i| self.datum(i)).collect();
                let t = self.datum(t);
                list_from(items, t)
            }
            Sx::Vector(v) => {
                let items = v.iter().map(|i| self.datum(i)).collect();
                self.new_vector(items, false)
            }
        }
    }

    /// a fresh top-level environment that sees only the primitives (a library's own scope)
    pub fn new_library_env(&self) -> Env {
        new_env(self.global.parent.clone())
    }
    /// evaluate a form as a top-level form of the given environment (definitions go there)
    pub fn eval_in(&mut self, x: &Sx, env: &Env) -> RResult {
        self.depth = 0;
        self.eval_toplevel_form(x, env)
    }
    /// Evaluate one top-level form in the global environment.
    pub fn eval_top(&mut self, x: &Sx) -> RResult {
        let g = self.global.clone();
        self.depth = 0;
        self.eval_toplevel_form(x, &g)
    }

    fn eval_toplevel_form(&mut self, x: &Sx, g: &Env) -> RResult {
        if x.is_call_to("define") {
            let (name, val) = self.eval_define(x, g)?;
            g.define(&name, val);
            return Ok(RVal::Unspec);
        }
        if x.is_call_to("begin") && x.as_list().unwrap().len() > 1 && self.quirks.begin_local {
            let f = new_env(Some(g.clone()));
            let body = &x.as_list().unwrap()[1..];
            let last = self.enter_body(body, &f)?.clone();
            return self.eval(&last, &f);
        }
        if x.is_call_to("begin") && x.as_list().unwrap().len() > 1 {
            // top-level begin: its forms are spliced into the top level
            let forms = &x.as_list().unwrap()[1..];
            let mut last = RVal::Unspec;
            for f in forms {
                last = self.eval_toplevel_form(f, g)?;
            }
            return Ok(last);
        }
        self.eval(x, g)
    }

    fn eval_define(&mut self, x: &Sx, env: &Env) -> Result<(String, RVal), ErrKind> {
        let v = x.as_list().unwrap();
        match &v[1] {
            Sx::Sym(name) => {
                let val = self.eval(&v[2], env)?;
                Ok((name.clone(), val))
            }
            Sx::List(sig) => {
                let name = sig[0].as_sym().unwrap().to_string();
                let params = sig[1..].iter().map(|p| p.as_sym().unwrap().to_string()).collect();
                Ok((name, self.closure(params, None, &v[2..], env)))
            }
            Sx::Dotted(sig, rest) => {
                let name = sig[0].as_sym().unwrap().to_string();
                let params = sig[1..].iter().map(|p| p.as_sym().unwrap().to_string()).collect();
                Ok((name, self.closure(params, Some(rest.as_sym().unwrap().to_string()), &v[2..], env)))
            }
            _ => Err(ErrKind::Syntax("define".into())),
        }
    }

    fn closure(&mut self, params: Vec<String>, rest: Option<String>, body: &[Sx], env: &Env) -> RVal {
        RVal::Proc(Rc::new(RProc::Closure { params, rest, body: Rc::new(body.to_vec()), env: env.clone() }))
    }

    fn burn(&mut self) -> Result<(), ErrKind> {
        if self.fuel == 0 {
            return Err(ErrKind::Other("reference-fuel-exhausted".into()));
        }
        self.fuel -= 1;
        Ok(())
    }

    /// evaluate a body (internal definitions with letrec* scope, then expressions); the last
    /// expression is returned unevaluated for the tail loop
    fn enter_body<'a>(&mut self, body: &'a [Sx], env: &Env) -> Result<&'a Sx, ErrKind> {
        let ndefs = body.iter().take_while(|f| f.is_call_to("define")).count();
        // letrec*: all names are bound first ...
        for d in &body[..ndefs] {
            let v = d.as_list().unwrap();
            let name = match &v[1] {
                Sx::Sym(n) => n.clone(),
                Sx::List(sig) | Sx::Dotted(sig, _) => sig[0].as_sym().unwrap().to_string(),
                _ => return Err(ErrKind::Syntax("define".into())),
            };
            if !env.is_bound_here(&name) {
                env.define(&name, RVal::Unassigned);
            }
        }
        // ... then initialised in order
        for d in &body[..ndefs] {
            let (name, val) = self.eval_define(d, env)?;
            env.define(&name, val);
        }
        let exprs = &body[ndefs..];
        if exprs.is_empty() {
            return Err(ErrKind::Syntax("LambdaBodyNoExpression".into()));
        }
        for e in &exprs[..exprs.len() - 1] {
            self.eval(e, env)?;
        }
        Ok(&exprs[exprs.len() - 1])
    }

    pub fn eval(&mut self, x: &Sx, env: &Env) -> RResult {
        // explicit tail loop: `cur`/`cenv` are replaced instead of recursing for tail positions
        let mut cur: Sx = x.clone();
        let mut cenv: Env = env.clone();
        loop {
            self.burn()?;
            match &cur {
                Sx::Int(_) | Sx::Rat(..) | Sx::Real(_) | Sx::Bool(_) | Sx::Char(_) | Sx::Str(_) => {
                    return Ok(self.datum(&cur))
                }
                Sx::Vector(_) => return Ok(self.datum(&cur)),
                Sx::Sym(name) => {
                    return match cenv.lookup(name) {
                        Some(c) => {
                            let v = c.borrow().clone();
                            if matches!(v, RVal::Unassigned) {
                                Err(ErrKind::Other("unassigned".into()))
                            } else {
                                Ok(v)
                            }
                        }
                        None => Err(ErrKind::Unbound(name.clone())),
                    }
                }
                Sx::Dotted(..) => return Err(ErrKind::Syntax("dotted".into())),
                Sx::List(v) => {
                    if v.is_empty() {
                        return Err(ErrKind::Syntax("EmptyCall".into()));
                    }
                    let head = v[0].as_sym().unwrap_or("");
                    if self.quirks.unhygienic {
                        if let Some(e) = unhygienic_expansion(head, v) {
                            cur = e;
                            continue;
                        }
                    }
                    match head {
                        "quote" => return Ok(self.datum(&v[1])),
                        "if" if v.len() < 3 || v.len() > 4 => return Err(ErrKind::Syntax("UnexpectedEnd".into())),
                        "if" => {
                            let t = self.eval(&v[1], &cenv)?;
                            if t.truthy() {
                                cur = v[2].clone();
                            } else if v.len() > 3 {
                                cur = v[3].clone();
                            } else {
                                return Ok(RVal::Unspec);
                            }
                            continue;
                        }
                        "lambda" => {
                            let (params, rest) = match &v[1] {
                                Sx::Sym(r) => (vec![], Some(r.clone())),
                                Sx::List(ps) => (ps.iter().map(|p| p.as_sym().unwrap().to_string()).collect(), None),
                                Sx::Dotted(ps, r) => (
                                    ps.iter().map(|p| p.as_sym().unwrap().to_string()).collect(),
                                    Some(r.as_sym().unwrap().to_string()),
                                ),
                                _ => return Err(ErrKind::Syntax("lambda".into())),
                            };
                            return Ok(self.closure(params, rest, &v[2..], &cenv));
                        }
                        "set!" => {
                            let name = v[1].as_sym().unwrap();
                            let val = self.eval(&v[2], &cenv)?;
                            return match cenv.lookup(name) {
                                Some(c) => {
                                    *c.borrow_mut() = val;
                                    Ok(RVal::Unspec)
                                }
                                None => Err(ErrKind::Unbound(name.to_string())),
                            };
                        }
                        "define" => {
                            // only reached for a definition in a non-definition context
                            return Err(ErrKind::Syntax("InvalidDefinitionContext".into()));
                        }
                        "begin" => {
                            if v.len() == 1 {
                                return Err(ErrKind::NoMatchingRule);
                            }
                            for e in &v[1..v.len() - 1] {
                                self.eval(e, &cenv)?;
                            }
                            cur = v[v.len() - 1].clone();
                            continue;
                        }
                        "let" => {
                            let binds = v[1].as_list().ok_or(ErrKind::Syntax("let".into()))?;
                            let mut idx: Vec<usize> = (0..binds.len()).collect();
                            if !self.policy.left_to_right {
                                idx.reverse();
                            }
                            let mut vals: Vec<Option<RVal>> = vec![None; binds.len()];
                            for i in idx {
                                let b = binds[i].as_list().unwrap();
                                vals[i] = Some(self.eval(&b[1], &cenv)?);
                            }
                            let f = new_env(Some(cenv.clone()));
                            for (i, b) in binds.iter().enumerate() {
                                f.define(b.as_list().unwrap()[0].as_sym().unwrap(), vals[i].take().unwrap());
                            }
                            let last = self.enter_body(&v[2..], &f)?.clone();
                            cur = last;
                            cenv = f;
                            continue;
                        }
                        "let*" => {
                            let binds = v[1].as_list().ok_or(ErrKind::Syntax("let*".into()))?;
                            let mut f = cenv.clone();
                            for b in binds {
                                let b = b.as_list().unwrap();
                                let val = self.eval(&b[1], &f)?;
                                let nf = new_env(Some(f));
                                nf.define(b[0].as_sym().unwrap(), val);
                                f = nf;
                            }
                            let f = new_env(Some(f));
                            let last = self.enter_body(&v[2..], &f)?.clone();
                            cur = last;
                            cenv = f;
                            continue;
                        }
                        "and" => {
                            if v.len() == 1 {
                                return Ok(RVal::Bool(true));
                            }
                            let mut short = None;
                            for e in &v[1..v.len() - 1] {
                                let t = self.eval(e, &cenv)?;
                                if !t.truthy() {
                                    short = Some(t);
                                    break;
                                }
                            }
                            if let Some(t) = short {
                                return Ok(t);
                            }
                            cur = v[v.len() - 1].clone();
                            continue;
                        }
                        "or" => {
                            if v.len() == 1 {
                                return Ok(RVal::Bool(false));
                            }
                            let mut short = None;
                            for e in &v[1..v.len() - 1] {
                                let t = self.eval(e, &cenv)?;
                                if t.truthy() {
                                    short = Some(t);
                                    break;
                                }
                            }
                            if let Some(t) = short {
                                return Ok(t);
                            }
                            cur = v[v.len() - 1].clone();
                            continue;
                        }
                        "when" | "unless" => {
                            let t = self.eval(&v[1], &cenv)?;
                            if t.truthy() == (head == "when") {
                                if v.len() < 3 {
                                    return Err(ErrKind::NoMatchingRule);
                                }
                                for e in &v[2..v.len() - 1] {
                                    self.eval(e, &cenv)?;
                                }
                                cur = v[v.len() - 1].clone();
                                continue;
                            }
                            return Ok(RVal::Unspec);
                        }
                        "cond" => {
                            let mut next: Option<Sx> = None;
                            let mut result: Option<RVal> = None;
                            for cl in &v[1..] {
                                let cl = cl.as_list().ok_or(ErrKind::Syntax("cond".into()))?;
                                if cl[0].as_sym() == Some("else") {
                                    for e in &cl[1..cl.len() - 1] {
                                        self.eval(e, &cenv)?;
                                    }
                                    next = Some(cl[cl.len() - 1].clone());
                                    break;
                                }
                                let t = self.eval(&cl[0], &cenv)?;
                                if t.truthy() {
                                    if cl.len() == 1 {
                                        result = Some(t);
                                    } else if cl[1].as_sym() == Some("=>") {
                                        let f = self.eval(&cl[2], &cenv)?;
                                        result = Some(self.apply(&f, vec![t])?);
                                    } else {
                                        for e in &cl[1..cl.len() - 1] {
                                            self.eval(e, &cenv)?;
                                        }
                                        next = Some(cl[cl.len() - 1].clone());
                                    }
                                    break;
                                }
                            }
                            match (next, result) {
                                (Some(n), _) => {
                                    cur = n;
                                    continue;
                                }
                                (None, Some(r)) => return Ok(r),
                                (None, None) => return Ok(RVal::Unspec),
                            }
                        }
                        "case" => {
                            let key = self.eval(&v[1], &cenv)?;
                            let mut next: Option<Sx> = None;
                            let mut result: Option<RVal> = None;
                            for cl in &v[2..] {
                                let cl = cl.as_list().ok_or(ErrKind::Syntax("case".into()))?;
                                let selected = if cl[0].as_sym() == Some("else") {
                                    true
                                } else {
                                    let data = cl[0].as_list().ok_or(ErrKind::Syntax("case".into()))?;
                                    let mut hit = false;
                                    for d in data {
                                        let dv = self.datum(d);
                                        if eqv(&key, &dv) {
                                            hit = true;
                                            break;
                                        }
                                    }
                                    hit
                                };
                                if selected {
                                    if cl.len() > 2 && cl[1].as_sym() == Some("=>") {
                                        let f = self.eval(&cl[2], &cenv)?;
                                        result = Some(self.apply(&f, vec![key.clone()])?);
                                    } else {
                                        for e in &cl[1..cl.len() - 1] {
                                            self.eval(e, &cenv)?;
                                        }
                                        next = Some(cl[cl.len() - 1].clone());
                                    }
                                    break;
                                }
                            }
                            match (next, result) {
                                (Some(n), _) => {
                                    cur = n;
                                    continue;
                                }
                                (None, Some(r)) => return Ok(r),
                                (None, None) => return Ok(RVal::Unspec),
                            }
                        }
                        _ => {
                            // application
                            let n = v.len() - 1;
                            let mut f: Option<RVal> = None;
                            if self.policy.operator_first {
                                f = Some(self.eval(&v[0], &cenv)?);
                            }
                            let mut args: Vec<Option<RVal>> = vec![None; n];
                            let mut idx: Vec<usize> = (0..n).collect();
                            if !self.policy.left_to_right {
                                idx.reverse();
                            }
                            for i in idx {
                                args[i] = Some(self.eval(&v[i + 1], &cenv)?);
                            }
                            if f.is_none() {
                                f = Some(self.eval(&v[0], &cenv)?);
                            }
                            let f = f.unwrap();
                            let args: Vec<RVal> = args.into_iter().map(|a| a.unwrap()).collect();
                            // tail call of a closure: rebind and loop
                            match &f {
                                RVal::Proc(p) => match &**p {
                                    RProc::Closure { params, rest, body, env } => {
                                        let fr = self.bind(params, rest, args, env)?;
                                        let last = self.enter_body(body, &fr)?.clone();
                                        cur = last;
                                        cenv = fr;
                                        continue;
                                    }
                                    RProc::Prim(_) => return self.apply(&f, args),
                                },
                                _ => return Err(ErrKind::NotProcedure),
                            }
                        }
                    }
                }
            }
        }
    }

    fn bind(&mut self, params: &[String], rest: &Option<String>, args: Vec<RVal>, env: &Env) -> Result<Env, ErrKind> {
        if args.len() < params.len() || (rest.is_none() && args.len() > params.len()) {
            return Err(ErrKind::Arity);
        }
        let fr = new_env(Some(env.clone()));
        let mut it = args.into_iter();
        for p in params {
            fr.define(p, it.next().unwrap());
        }
        if let Some(r) = rest {
            let restv: Vec<RVal> = it.collect();
            fr.define(r, list_from(restv, RVal::Nil));
        }
        Ok(fr)
    }

    pub fn apply(&mut self, f: &RVal, args: Vec<RVal>) -> RResult {
        self.burn()?;
        match f {
            RVal::Proc(p) => match &**p {
                RProc::Closure { params, rest, body, env } => {
                    let fr = self.bind(params, rest, args, env)?;
                    let last = self.enter_body(body, &fr)?.clone();
                    self.eval(&last, &fr)
                }
                RProc::Prim(name) => self.prim(name, args),
            },
            _ => Err(ErrKind::NotProcedure),
        }
    }

    fn num(v: &RVal) -> Result<RNum, ErrKind> {
        match v {
            RVal::Num(n) => Ok(*n),
            _ => Err(wrong()),
        }
    }
    fn index(v: &RVal) -> Result<i128, ErrKind> {
        match v {
            RVal::Num(RNum::Exact(n, 1)) => Ok(*n),
            _ => Err(wrong()),
        }
    }
    fn pair(v: &RVal) -> Result<Rc<(RVal, RVal)>, ErrKind> {
        match v {
            RVal::Pair(p) => Ok(p.clone()),
            _ => Err(wrong()),
        }
    }
    fn cxr(v: &RVal, path: &str) -> RResult {
        // path like "ad" for cadr: applied right to left
        let mut cur = v.clone();
        for c in path.chars().rev() {
            let p = Self::pair(&cur)?;
            cur = if c == 'a' { p.0.clone() } else { p.1.clone() };
        }
        Ok(cur)
    }

    fn prim(&mut self, name: &'static str, args: Vec<RVal>) -> RResult {
        let (_, min, max) = PRIMS.iter().find(|p| p.0 == name).unwrap();
        if args.len() < *min || max.map(|m| args.len() > m).unwrap_or(false) {
            return Err(ErrKind::Arity);
        }
        let b = RVal::Bool;
        Ok(match name {
            "tick" => {
                if let RVal::Num(RNum::Exact(k, 1)) = &args[0] {
                    self.trace.push(*k as i64);
                }
                args[1].clone()
            }
            "apply" => {
                let f = args[0].clone();
                let mut rest: Vec<RVal> = args[1..].to_vec();
                if let Some(last) = rest.pop() {
                    // the last argument must be a list; its elements are spread
                    match list_items(&last) {
                        Some(items) => rest.extend(items),
                        None => return Err(wrong()),
                    }
                }
                if !matches!(f, RVal::Proc(_)) {
                    return Err(ErrKind::NotProcedure);
                }
                return self.apply(&f, rest);
            }
            "car" => Self::pair(&args[0])?.0.clone(),
            "cdr" => Self::pair(&args[0])?.1.clone(),
            "cons" => RVal::Pair(Rc::new((args[0].clone(), args[1].clone()))),
            "eqv?" | "eq?" => b(eqv(&args[0], &args[1])),
            "equal?" => b(equal(&args[0], &args[1])),
            "boolean?" => b(matches!(args[0], RVal::Bool(_))),
            "char?" => b(matches!(args[0], RVal::Char(_))),
            "number?" => b(matches!(args[0], RVal::Num(_))),
            "string?" => b(matches!(args[0], RVal::Str(_))),
            "symbol?" => b(matches!(args[0], RVal::Sym(_))),
            "pair?" => b(matches!(args[0], RVal::Pair(_))),
            "procedure?" => b(matches!(args[0], RVal::Proc(_))),
            "vector?" => b(matches!(args[0], RVal::Vector(_))),
            "null?" => b(matches!(args[0], RVal::Nil)),
            "list?" => b(list_items(&args[0]).is_some()),
            "not" => b(!args[0].truthy()),
            "+" | "*" => {
                let mut it = args.iter();
                let mut acc = match it.next() {
                    Some(a) => Self::num(a)?,
                    None => refnum::int(if name == "+" { 0 } else { 1 }),
                };
                for a in it {
                    let n = Self::num(a)?;
                    acc = if name == "+" { acc.add(n) } else { acc.mul(n) };
                }
                RVal::Num(acc)
            }
            "-" | "/" => {
                let first = Self::num(&args[0])?;
                if args.len() == 1 {
                    RVal::Num(if name == "-" { first.neg() } else { refnum::int(1).div(first).map_err(|_| ErrKind::DivByZero)? })
                } else {
                    let mut acc = first;
                    for a in &args[1..] {
                        let n = Self::num(a)?;
                        acc = if name == "-" { acc.sub(n) } else { acc.div(n).map_err(|_| ErrKind::DivByZero)? };
                    }
                    RVal::Num(acc)
                }
            }
            "=" | "<" | ">" | "<=" | ">=" => {
                let nums: Result<Vec<RNum>, ErrKind> = args.iter().map(Self::num).collect();
                let nums = nums?;
                use std::cmp::Ordering::*;
                b(nums.windows(2).all(|w| match (name, w[0].cmp(w[1])) {
                    (_, None) => false,
                    ("=", Some(o)) => o == Equal,
                    ("<", Some(o)) => o == Less,
                    (">", Some(o)) => o == Greater,
                    ("<=", Some(o)) => o != Greater,
                    (_, Some(o)) => o != Less,
                }))
            }
            "abs" => RVal::Num(Self::num(&args[0])?.abs()),
            "floor" => RVal::Num(Self::num(&args[0])?.floor()),
            "ceiling" => RVal::Num(Self::num(&args[0])?.ceiling()),
            "floor-quotient" => RVal::Num(Self::num(&args[0])?.floor_quotient(Self::num(&args[1])?).map_err(|_| ErrKind::DivByZero)?),
            "floor-remainder" => RVal::Num(Self::num(&args[0])?.floor_remainder(Self::num(&args[1])?).map_err(|_| ErrKind::DivByZero)?),
            "min" | "max" => {
                let nums: Result<Vec<RNum>, ErrKind> = args.iter().map(Self::num).collect();
                let nums = nums?;
                let mut best = nums[0];
                for n in &nums[1..] {
                    let c = n.cmp(best);
                    let better = if name == "max" { c == Some(std::cmp::Ordering::Greater) } else { c == Some(std::cmp::Ordering::Less) };
                    if better {
                        best = *n;
                    }
                }
                RVal::Num(if nums.iter().any(|n| !n.is_exact()) { RNum::Inexact(best.to_f32()) } else { best })
            }
            "vector" => self.new_vector(args, true),
            "make-vector" => {
                let k = Self::index(&args[0])?;
                if k < 0 {
                    return Err(ErrKind::Other("NegativeLength".into()));
                }
                self.new_vector(vec![args[1].clone(); k as usize], true)
            }
            "vector-length" => match &args[0] {
                RVal::Vector(v) => RVal::int(v.items.borrow().len() as i64),
                _ => return Err(wrong()),
            },
            "vector-ref" => match &args[0] {
                RVal::Vector(v) => {
                    let k = Self::index(&args[1])?;
                    let items = v.items.borrow();
                    if k < 0 || k as usize >= items.len() {
                        return Err(ErrKind::Index);
                    }
                    items[k as usize].clone()
                }
                _ => return Err(wrong()),
            },
            "vector-set!" => match &args[0] {
                RVal::Vector(v) => {
                    let k = Self::index(&args[1])?;
                    if !v.mutable {
                        return Err(ErrKind::Immutable);
                    }
                    let mut items = v.items.borrow_mut();
                    if k < 0 || k as usize >= items.len() {
                        return Err(ErrKind::Index);
                    }
                    items[k as usize] = args[2].clone();
                    RVal::Unspec
                }
                _ => return Err(wrong()),
            },
            "caar" | "cadr" | "cdar" | "cddr" | "caaar" | "caadr" | "cadar" | "caddr" | "cdaar" | "cdadr" | "cddar" | "cdddr" => {
                Self::cxr(&args[0], &name[1..name.len() - 1])?
            }
            "list" => list_from(args, RVal::Nil),
            "make-list" => {
                let k = Self::index(&args[0])?;
                if k < 0 {
                    return Err(wrong());
                }
                list_from(vec![args[1].clone(); k as usize], RVal::Nil)
            }
            "append" => {
                if args.is_empty() {
                    return Ok(RVal::Nil);
                }
                let mut acc = args[args.len() - 1].clone();
                for a in args[..args.len() - 1].iter().rev() {
                    let items = list_items(a).ok_or(if matches!(a, RVal::Pair(_)) { unspecified_nonlist() } else { wrong() })?;
                    acc = list_from(items, acc);
                }
                acc
            }
            "memq" | "memv" => {
                let mut cur = args[1].clone();
                loop {
                    match cur {
                        RVal::Pair(p) => {
                            if eqv(&args[0], &p.0) {
                                break RVal::Pair(p);
                            }
                            cur = p.1.clone();
                        }
                        RVal::Nil => break RVal::Bool(false),
                        _ => return Err(wrong()),
                    }
                }
            }
            "map" => {
                let items = list_items(&args[1]).ok_or(unspecified_nonlist())?;
                let mut out = vec![];
                for i in items {
                    out.push(self.apply(&args[0], vec![i])?);
                }
                list_from(out, RVal::Nil)
            }
            "for-each" => {
                let items = list_items(&args[1]).ok_or(unspecified_nonlist())?;
                for i in items {
                    self.apply(&args[0], vec![i])?;
                }
                RVal::Unspec
            }
            // minischeme argument order: (f element accumulator)
            "fold-left" => {
                let items = list_items(&args[2]).ok_or(unspecified_nonlist())?;
                let mut acc = args[1].clone();
                for i in items {
                    acc = self.apply(&args[0], vec![i, acc])?;
                }
                acc
            }
            "fold-right" => {
                let items = list_items(&args[2]).ok_or(unspecified_nonlist())?;
                let mut acc = args[1].clone();
                for i in items.into_iter().rev() {
                    acc = self.apply(&args[0], vec![i, acc])?;
                }
                acc
            }
            "list-tail" | "list-ref" => {
                let k = Self::index(&args[1])?;
                if k < 0 {
                    return Err(wrong());
                }
                let mut cur = args[0].clone();
                for _ in 0..k {
                    cur = Self::pair(&cur)?.1.clone();
                }
                if name == "list-ref" {
                    Self::pair(&cur)?.0.clone()
                } else {
                    cur
                }
            }
            "last-pair" => {
                let mut cur = Self::pair(&args[0])?;
                loop {
                    match &cur.1 {
                        RVal::Pair(n) => {
                            let n = n.clone();
                            cur = n;
                        }
                        _ => break RVal::Pair(cur),
                    }
                }
            }
            "display" => {
                self.out.push_str(&display_string(&args[0]));
                RVal::Unspec
            }
            "newline" => {
                self.out.push('\n');
                RVal::Unspec
            }
            _ => unreachable!("prim {}", name),
        })
    }
}

/// Canonical dump of the machine's store: the user-level global frame and everything reachable
/// from it. Vectors and frames are numbered in first-visit order, so two stores with the same
/// shape, values and alias partition give the same dump (the canonical model state of E-hist).
pub fn canonical_state(m: &Machine) -> String {
    struct D {
        vecs: Vec<*const RVec>,
        frames: Vec<*const Frame>,
        out: String,
    }
    fn val(d: &mut D, v: &RVal, global: *const Frame) {
        match v {
            RVal::Pair(p) => {
                d.out.push('(');
                val(d, &p.0, global);
                d.out.push_str(" . ");
                val(d, &p.1, global);
                d.out.push(')');
            }
            RVal::Vector(vc) => {
                let ptr = Rc::as_ptr(vc);
                if let Some(i) = d.vecs.iter().position(|p| *p == ptr) {
                    d.out.push_str(&format!("#vec{}", i));
                } else {
                    d.vecs.push(ptr);
                    d.out.push_str(&format!("#vec{}{}[", d.vecs.len() - 1, if vc.mutable { "m" } else { "lit" }));
                    let items = vc.items.borrow().clone();
                    for i in items.iter() {
                        val(d, i, global);
                        d.out.push(' ');
                    }
                    d.out.push(']');
                }
            }
            RVal::Proc(p) => match &**p {
                RProc::Prim(n) => d.out.push_str(&format!("#prim:{}", n)),
                RProc::Closure { params, rest, body, env } => {
                    d.out.push_str(&format!("#closure({:?} {:?} {})", params, rest, body.iter().map(|b| b.to_string()).collect::<Vec<_>>().join(" ")));
                    frame(d, env, global);
                }
            },
            other => d.out.push_str(&format!("{}", other)),
        }
    }
    fn frame(d: &mut D, f: &Env, global: *const Frame) {
        let ptr = Rc::as_ptr(f);
        if ptr == global {
            d.out.push_str("@G");
            return;
        }
        if f.parent.is_none() {
            // the root frame holds the primitives
            d.out.push_str("@prims");
            return;
        }
        if let Some(i) = d.frames.iter().position(|p| *p == ptr) {
            d.out.push_str(&format!("@f{}", i));
            return;
        }
        d.frames.push(ptr);
        d.out.push_str(&format!("@f{}{{", d.frames.len() - 1));
        for n in f.local_names() {
            let c = f.vars.borrow().get(&n).unwrap().clone();
            d.out.push_str(&n);
            d.out.push('=');
            let v = c.borrow().clone();
            val(d, &v, global);
            d.out.push(';');
        }
        d.out.push('}');
        match &f.parent {
            Some(p) => frame(d, p, global),
            None => d.out.push_str("@prims"),
        }
    }
    let mut d = D { vecs: vec![], frames: vec![], out: String::new() };
    let g = Rc::as_ptr(&m.global);
    for n in m.global.local_names() {
        let c = m.global.vars.borrow().get(&n).unwrap().clone();
        d.out.push_str(&n);
        d.out.push('=');
        let v = c.borrow().clone();
        val(&mut d, &v, g);
        d.out.push('\n');
    }
    d.out
}

/// The bundled macros of the pinned tree insert these identifiers literally (defect model).
fn unhygienic_expansion(head: &str, v: &[Sx]) -> Option<Sx> {
    use crate::sexp::{list, sym};
    let l = |items: Vec<Sx>| list(items);
    match head {
        "or" if v.len() > 2 => {
            // (let ((x test1)) (if x x (or test2 ...)))
            let mut rest = vec![sym("or")];
            rest.extend(v[2..].iter().cloned());
            Some(l(vec![sym("let"), l(vec![l(vec![sym("x"), v[1].clone()])]), l(vec![sym("if"), sym("x"), sym("x"), l(rest)])]))
        }
        "unless" if v.len() > 2 => {
            let mut b = vec![sym("begin")];
            b.extend(v[2..].iter().cloned());
            Some(l(vec![sym("if"), l(vec![sym("not"), v[1].clone()]), l(b)]))
        }
        "cond" if v.len() > 1 => {
            let cl = v[1].as_list()?;
            let more = v.len() > 2;
            let mut rest = vec![sym("cond")];
            rest.extend(v[2..].iter().cloned());
            if cl.first()?.as_sym() == Some("else") {
                return None;
            }
            if cl.len() == 3 && cl[1].as_sym() == Some("=>") {
                let call = l(vec![cl[2].clone(), sym("temp")]);
                let iff = if more { l(vec![sym("if"), sym("temp"), call, l(rest)]) } else { l(vec![sym("if"), sym("temp"), call]) };
                return Some(l(vec![sym("let"), l(vec![l(vec![sym("temp"), cl[0].clone()])]), iff]));
            }
            if cl.len() == 1 && more {
                return Some(l(vec![sym("let"), l(vec![l(vec![sym("temp"), cl[0].clone()])]), l(vec![sym("if"), sym("temp"), sym("temp"), l(rest)])]));
            }
            if cl.len() > 1 && more {
                let mut b = vec![sym("begin")];
                b.extend(cl[1..].iter().cloned());
                return Some(l(vec![sym("if"), cl[0].clone(), l(b), l(rest)]));
            }
            None
        }
        "case" if v.len() > 2 => {
            if !matches!(v[1], Sx::Sym(_) | Sx::Int(_) | Sx::Bool(_) | Sx::Char(_) | Sx::Str(_) | Sx::Real(_) | Sx::Rat(..)) {
                // (let ((atom-key (key ...))) (case atom-key clauses ...))
                let mut c = vec![sym("case"), sym("atom-key")];
                c.extend(v[2..].iter().cloned());
                return Some(l(vec![sym("let"), l(vec![l(vec![sym("atom-key"), v[1].clone()])]), l(c)]));
            }
            let cl = v[2].as_list()?;
            if cl.first()?.as_sym() == Some("else") {
                return None;
            }
            let more = v.len() > 3;
            let mut rest = vec![sym("case"), v[1].clone()];
            rest.extend(v[3..].iter().cloned());
            let memv = l(vec![sym("memv"), v[1].clone(), crate::sexp::quote(cl[0].clone())]);
            let arrow = cl.len() == 3 && cl[1].as_sym() == Some("=>");
            let then = if arrow {
                l(vec![cl[2].clone(), v[1].clone()])
            } else {
                let mut b = vec![sym("begin")];
                b.extend(cl[1..].iter().cloned());
                l(b)
            };
            if more {
                Some(l(vec![sym("if"), memv, then, l(rest)]))
            } else {
                Some(l(vec![sym("if"), memv, then]))
            }
        }
        _ => None,
    }
}

#[cfg(test)]
mod tests {
    use super::*;
    use crate::sexp::parse_all;
    fn run(src: &str) -> Vec<String> {
        let mut m = Machine::new(POLICIES[0]);
        parse_all(src).iter().map(|f| show_result(&m.eval_top(f))).collect()
    }
    #[test]
    fn r7rs_examples() {
        // R7RS 4.1, 4.2 worked examples
        assert_eq!(run("((lambda x x) 3 4 5 6)"), ["(3 4 5 6)"]);
        assert_eq!(run("((lambda (x y . z) z) 3 4 5 6)"), ["(5 6)"]);
        assert_eq!(run("(define x 2) (+ x 1) (set! x 4) (+ x 1)"), ["#<unspecified>", "3", "#<unspecified>", "5"]);
        assert_eq!(run("(cond ((> 3 2) 'greater) ((< 3 2) 'less))"), ["greater"]);
        assert_eq!(run("(cond ((memv 'b '(a b c)) => car) (else #f))"), ["b"]);
        assert_eq!(run("(case (* 2 3) ((2 3 5 7) 'prime) ((1 4 6 8 9) 'composite))"), ["composite"]);
        assert_eq!(run("(case (car '(c d)) ((a e i o u) 'vowel) ((w y) 'semivowel) (else => (lambda (x) x)))"), ["c"]);
        assert_eq!(run("(and 1 2 'c '(f g))"), ["(f g)"]);
        assert_eq!(run("(or (memq 'b '(a b c)) (/ 3 0))"), ["(b c)"]);
        assert_eq!(run("(let ((x 2) (y 3)) (let* ((x 7) (z (+ x y))) (* z x)))"), ["70"]);
        assert_eq!(run("(let ((x 2) (y 3)) (let ((x 7) (z (+ x y))) (* z x)))"), ["35"]);
        assert_eq!(run("(let ((x 5)) (define foo (lambda (y) (bar x y))) (define bar (lambda (a b) (+ (* a b) a))) (foo (+ x 3)))"), ["45"]);
        assert_eq!(run("(apply + (list 3 4))"), ["7"]);
        assert_eq!(run("(map cadr '((a b) (d e) (g h)))"), ["(b e h)"]);
        assert_eq!(run("(append '(a) '(b c d))  (append '(a b) 'c) (append '() 'a)"), ["(a b c d)", "(a b . c)", "a"]);
        assert_eq!(run("(list-tail '(a b c d) 2) (list-ref '(a b c d) 2)"), ["(c d)", "c"]);
        assert_eq!(run("(equal? '#(1 2) '#(1 2)) (eqv? '#(1) '#(1)) (let ((p '(a))) (memq p (list p)))"), ["#t", "#f", "((a))"]);
        assert_eq!(run("(vector-set! '#(1 2) 0 1)"), ["error Immutable"]);
        assert_eq!(run("(define (f . r) r) (f) (f 1)"), ["#<unspecified>", "()", "(1)"]);
        assert_eq!(run("(when #f 1) (unless #f 1 2)"), ["#<unspecified>", "2"]);
        assert_eq!(run("(fold-left cons '() '(1 2 3)) (fold-right cons '() '(1 2 3))"), ["(3 2 1)", "(1 2 3)"]);
        assert_eq!(run("(car '()) (undefined-var) ((lambda (x) x)) (1 2) (vector-ref (vector 1) 1) (/ 1 0)"),
            ["error WrongType", "error Unbound(\"undefined-var\")", "error Arity", "error NotProcedure", "error Index", "error DivByZero"]);
    }
    #[test]
    fn tail_loop_is_iterative() {
        assert_eq!(run("(define (loop n acc) (if (= n 0) acc (loop (- n 1) (+ acc 1)))) (loop 100000 0)")[1], "100000");
    }
}

//! Bounded-exhaustive enumeration of typed terms by node count, with exact counting and
//! unranking (random access by index), so that a space can be sharded over worker threads without
//! being materialised. Deterministic, simplest-first (index order = size order within a query).
use crate::sexp::Sx;
use std::collections::HashMap;
use std::rc::Rc;
use std::sync::Arc;

pub type Ty = u16;
pub type EnvId = u32;

/// template with holes for the children
#[derive(Clone, Debug)]
pub enum Tpl {
    Lit(Sx),
    Hole(usize),
    List(Vec<Tpl>),
    /// improper list template
    Dotted(Vec<Tpl>, Box<Tpl>),
}

pub fn tl(s: &str) -> Tpl {
    Tpl::Lit(Sx::Sym(s.to_string()))
}
pub fn th(i: usize) -> Tpl {
    Tpl::Hole(i)
}
pub fn tlist(v: Vec<Tpl>) -> Tpl {
    Tpl::List(v)
}

#[derive(Clone, Debug)]
pub struct Prod {
    /// nodes contributed by the production itself
    pub cost: u32,
    pub kids: Vec<(Ty, EnvId)>,
    pub tpl: Tpl,
    /// facet tag of the production (for coverage histograms)
    pub tag: &'static str,
}

pub trait Grammar {
    fn prods(&mut self, ty: Ty, env: EnvId) -> Vec<Prod>;
}

/// Phase 1 (single-threaded): counting explores every reachable (type, env, size) and caches the
/// productions. Phase 2: `freeze()` gives a read-only, Sync table for unranking from many threads.
pub struct Counter<G: Grammar> {
    pub g: G,
    prods: HashMap<(Ty, EnvId), Rc<Vec<Prod>>>,
    counts: HashMap<(Ty, EnvId, u32), u64>,
}

fn sat_mul(a: u64, b: u64) -> u64 {
    a.checked_mul(b).expect("enumeration count overflow")
}

impl<G: Grammar> Counter<G> {
    pub fn new(g: G) -> Self {
        Counter { g, prods: HashMap::new(), counts: HashMap::new() }
    }
    fn prods_of(&mut self, ty: Ty, env: EnvId) -> Rc<Vec<Prod>> {
        if let Some(p) = self.prods.get(&(ty, env)) {
            return p.clone();
        }
        let p = Rc::new(self.g.prods(ty, env));
        self.prods.insert((ty, env), p.clone());
        p
    }
    /// number of terms of type `ty` in `env` with exactly `n` nodes
    pub fn count(&mut self, ty: Ty, env: EnvId, n: u32) -> u64 {
        if n == 0 {
            return 0;
        }
        if let Some(c) = self.counts.get(&(ty, env, n)) {
            return *c;
        }
        // guard against left recursion: a production always costs >= 1 so sizes strictly decrease
        let prods = self.prods_of(ty, env);
        let mut total = 0u64;
        for p in prods.iter() {
            if p.cost > n {
                continue;
            }
            total += self.count_seq(&p.kids, n - p.cost);
        }
        self.counts.insert((ty, env, n), total);
        total
    }
    fn count_seq(&mut self, kids: &[(Ty, EnvId)], m: u32) -> u64 {
        if kids.is_empty() {
            return (m == 0) as u64;
        }
        let k = kids.len() as u32;
        if m < k {
            return 0;
        }
        if kids.len() == 1 {
            return self.count(kids[0].0, kids[0].1, m);
        }
        let mut total = 0;
        for s in 1..=(m - (k - 1)) {
            let c = self.count(kids[0].0, kids[0].1, s);
            if c == 0 {
                continue;
            }
            let rest = self.count_seq(&kids[1..], m - s);
            total += sat_mul(c, rest);
        }
        total
    }
    pub fn freeze(self) -> Table {
        Table {
            prods: self.prods.into_iter().map(|(k, v)| (k, Arc::new((*v).clone()))).collect(),
            counts: self.counts,
        }
    }
}

pub struct Table {
    prods: HashMap<(Ty, EnvId), Arc<Vec<Prod>>>,
    counts: HashMap<(Ty, EnvId, u32), u64>,
}

impl Table {
    pub fn count(&self, ty: Ty, env: EnvId, n: u32) -> u64 {
        if n == 0 {
            return 0;
        }
        *self.counts.get(&(ty, env, n)).unwrap_or(&0)
    }
    fn count_seq(&self, kids: &[(Ty, EnvId)], m: u32) -> u64 {
        if kids.is_empty() {
            return (m == 0) as u64;
        }
        let k = kids.len() as u32;
        if m < k {
            return 0;
        }
        if kids.len() == 1 {
            return self.count(kids[0].0, kids[0].1, m);
        }
        let mut total = 0;
        for s in 1..=(m - (k - 1)) {
            let c = self.count(kids[0].0, kids[0].1, s);
            if c == 0 {
                continue;
            }
            total += c * self.count_seq(&kids[1..], m - s);
        }
        total
    }
    /// the `idx`-th term (0-based) of type `ty` in `env` with exactly `n` nodes;
    /// `tags` collects the facet tags of the productions used
    pub fn unrank(&self, ty: Ty, env: EnvId, n: u32, mut idx: u64, tags: &mut Vec<&'static str>) -> Sx {
        let prods = self.prods.get(&(ty, env)).expect("unrank: unknown (type, env)");
        for p in prods.iter() {
            if p.cost > n {
                continue;
            }
            let c = self.count_seq(&p.kids, n - p.cost);
            if idx >= c {
                idx -= c;
                continue;
            }
            if !p.tag.is_empty() {
                tags.push(p.tag);
            }
            let mut kids = Vec::with_capacity(p.kids.len());
            self.unrank_seq(&p.kids, n - p.cost, idx, &mut kids, tags);
            return fill(&p.tpl, &kids);
        }
        panic!("unrank: index out of range");
    }
    fn unrank_seq(&self, kids: &[(Ty, EnvId)], m: u32, mut idx: u64, out: &mut Vec<Sx>, tags: &mut Vec<&'static str>) {
        if kids.is_empty() {
            return;
        }
        if kids.len() == 1 {
            out.push(self.unrank(kids[0].0, kids[0].1, m, idx, tags));
            return;
        }
        let k = kids.len() as u32;
        for s in 1..=(m - (k - 1)) {
            let c = self.count(kids[0].0, kids[0].1, s);
            if c == 0 {
                continue;
            }
            let rest = self.count_seq(&kids[1..], m - s);
            let block = c * rest;
            if idx >= block {
                idx -= block;
                continue;
            }
            out.push(self.unrank(kids[0].0, kids[0].1, s, idx / rest, tags));
            self.unrank_seq(&kids[1..], m - s, idx % rest, out, tags);
            return;
        }
        panic!("unrank_seq: index out of range");
    }
}

pub fn fill(t: &Tpl, kids: &[Sx]) -> Sx {
    match t {
        Tpl::Lit(x) => x.clone(),
        Tpl::Hole(i) => kids[*i].clone(),
        Tpl::List(v) => Sx::List(v.iter().map(|x| fill(x, kids)).collect()),
        Tpl::Dotted(v, t) => Sx::Dotted(v.iter().map(|x| fill(x, kids)).collect(), Box::new(fill(t, kids))),
    }
}

/// number `(tick 0 e)` occurrences 1,2,3.. in pre-order so that the trace shows order and multiplicity
pub fn number_ticks(x: &mut Sx, next: &mut i64) {
    match x {
        Sx::List(v) => {
            if v.len() == 3 && v[0].as_sym() == Some("tick") {
                if let Sx::Int(0) = v[1] {
                    v[1] = Sx::Int(*next);
                    *next += 1;
                }
            }
            let quoted = v.first().and_then(|h| h.as_sym()) == Some("quote");
            if !quoted {
                for i in v.iter_mut() {
                    number_ticks(i, next);
                }
            }
        }
        Sx::Dotted(v, t) => {
            for i in v.iter_mut() {
                number_ticks(i, next);
            }
            number_ticks(t, next);
        }
        _ => {}
    }
}

//! Reference numeric tower: exact numbers are normalised i128 rationals, inexact numbers are f32
//! with Rust's IEEE operations. Shares no code with ruschm::values.
use crate::drive::Obs;

#[derive(Clone, Copy, Debug)]
pub enum RNum {
    /// numerator, denominator; always gcd-reduced with denominator > 0
    Exact(i128, i128),
    Inexact(f32),
}

#[derive(Clone, Copy, Debug, PartialEq, Eq)]
pub struct DivByZero;

pub fn gcd(a: i128, b: i128) -> i128 {
    let (mut a, mut b) = (a.abs(), b.abs());
    while b != 0 {
        let t = a % b;
        a = b;
        b = t;
    }
    a
}

pub fn exact(n: i128, d: i128) -> RNum {
    assert!(d != 0);
    let g = gcd(n, d).max(1);
    let s = if d < 0 { -1 } else { 1 };
    RNum::Exact(s * n / g, s * d / g)
}
pub fn int(n: i128) -> RNum {
    RNum::Exact(n, 1)
}

fn floor_div(n: i128, d: i128) -> i128 {
    // d > 0
    let q = n / d;
    if n % d != 0 && (n < 0) {
        q - 1
    } else {
        q
    }
}

impl RNum {
    pub fn is_exact(&self) -> bool {
        matches!(self, RNum::Exact(..))
    }
    /// conversion exact -> binary32: integers round to nearest; ratios are the quotient of the
    /// converted components (as the property states: "the IEEE operation on the converted operands")
    pub fn to_f32(&self) -> f32 {
        match *self {
            RNum::Exact(n, 1) => n as f32,
            RNum::Exact(n, d) => (n as f32) / (d as f32),
            RNum::Inexact(f) => f,
        }
    }
    pub fn is_zero(&self) -> bool {
        match *self {
            RNum::Exact(n, _) => n == 0,
            RNum::Inexact(f) => f == 0.0,
        }
    }
    pub fn add(self, o: RNum) -> RNum {
        match (self, o) {
            (RNum::Exact(a, b), RNum::Exact(c, d)) => exact(a * d + c * b, b * d),
            (a, b) => RNum::Inexact(a.to_f32() + b.to_f32()),
        }
    }
    pub fn sub(self, o: RNum) -> RNum {
        match (self, o) {
            (RNum::Exact(a, b), RNum::Exact(c, d)) => exact(a * d - c * b, b * d),
            (a, b) => RNum::Inexact(a.to_f32() - b.to_f32()),
        }
    }
    pub fn mul(self, o: RNum) -> RNum {
        match (self, o) {
            (RNum::Exact(a, b), RNum::Exact(c, d)) => exact(a * c, b * d),
            (a, b) => RNum::Inexact(a.to_f32() * b.to_f32()),
        }
    }
    pub fn div(self, o: RNum) -> Result<RNum, DivByZero> {
        match (self, o) {
            (RNum::Exact(a, b), RNum::Exact(c, d)) => {
                if c == 0 {
                    Err(DivByZero)
                } else {
                    Ok(exact(a * d, b * c))
                }
            }
            (a, b) => Ok(RNum::Inexact(a.to_f32() / b.to_f32())),
        }
    }
    pub fn neg(self) -> RNum {
        match self {
            RNum::Exact(a, b) => RNum::Exact(-a, b),
            RNum::Inexact(f) => RNum::Inexact(-f),
        }
    }
    pub fn abs(self) -> RNum {
        match self {
            RNum::Exact(a, b) => RNum::Exact(a.abs(), b),
            RNum::Inexact(f) => RNum::Inexact(f.abs()),
        }
    }
    pub fn floor(self) -> RNum {
        match self {
            RNum::Exact(a, b) => RNum::Exact(floor_div(a, b), 1),
            RNum::Inexact(f) => RNum::Inexact(f.floor()),
        }
    }
    pub fn ceiling(self) -> RNum {
        match self {
            RNum::Exact(a, b) => RNum::Exact(-floor_div(-a, b), 1),
            RNum::Inexact(f) => RNum::Inexact(f.ceil()),
        }
    }
    pub fn floor_quotient(self, o: RNum) -> Result<RNum, DivByZero> {
        Ok(self.div(o)?.floor())
    }
    pub fn floor_remainder(self, o: RNum) -> Result<RNum, DivByZero> {
        let q = self.floor_quotient(o)?;
        Ok(self.sub(q.mul(o)))
    }
    /// numeric comparison (exact vs inexact: after converting the exact operand to binary32)
    pub fn cmp(self, o: RNum) -> Option<std::cmp::Ordering> {
        match (self, o) {
            (RNum::Exact(a, b), RNum::Exact(c, d)) => Some((a * d).cmp(&(c * b))),
            (a, b) => a.to_f32().partial_cmp(&b.to_f32()),
        }
    }
    pub fn num_eq(self, o: RNum) -> bool {
        self.cmp(o) == Some(std::cmp::Ordering::Equal)
    }
    pub fn eqv(self, o: RNum) -> bool {
        match (self, o) {
            (RNum::Exact(a, b), RNum::Exact(c, d)) => a == c && b == d,
            (RNum::Inexact(a), RNum::Inexact(b)) => a == b,
            _ => false,
        }
    }
    /// max magnitude of the components (for the "below 2^15" clause)
    pub fn magnitude(&self) -> i128 {
        match *self {
            RNum::Exact(a, b) => a.abs().max(b),
            RNum::Inexact(_) => 0,
        }
    }
}

impl std::fmt::Display for RNum {
    fn fmt(&self, f: &mut std::fmt::Formatter) -> std::fmt::Result {
        match self {
            RNum::Exact(a, 1) => write!(f, "{}", a),
            RNum::Exact(a, b) => write!(f, "{}/{}", a, b),
            RNum::Inexact(x) => write!(f, "{:?}f", x),
        }
    }
}

/// Value of an implementation number as a reference number (None: zero denominator).
pub fn of_obs(o: &Obs) -> Option<RNum> {
    match o {
        Obs::Int(i) => Some(int(*i as i128)),
        Obs::Rat(a, b) => {
            if *b == 0 {
                None
            } else {
                Some(exact(*a as i128, *b as i128))
            }
        }
        Obs::Real(bits) => Some(RNum::Inexact(f32::from_bits(*bits))),
        _ => None,
    }
}

/// Same exactness and same value. An unreduced, negative-denominator or n/1 representation of
/// the right exact number is accepted here (representation facets are judged where a property
/// makes them observable: eqv?, comparison, printing). Reals: bit-equal, NaN ~ NaN.
pub fn matches(r: &RNum, o: &Obs) -> bool {
    match (r, of_obs(o)) {
        (RNum::Exact(a, b), Some(RNum::Exact(c, d))) => *a == c && *b == d,
        (RNum::Inexact(x), Some(RNum::Inexact(y))) => {
            x.to_bits() == y.to_bits() || (x.is_nan() && y.is_nan())
        }
        _ => false,
    }
}

#[cfg(test)]
mod tests {
    use super::*;
    #[test]
    fn floor_family() {
        // R7RS 6.2.6 worked examples
        assert!(exact(-1, 2).floor().eqv(int(-1)));
        assert!(exact(1, 2).ceiling().eqv(int(1)));
        assert!(exact(-43, 7).floor().eqv(int(-7)));
        assert!(int(5).floor_quotient(int(2)).unwrap().eqv(int(2)));
        assert!(int(-5).floor_quotient(int(2)).unwrap().eqv(int(-3)));
        assert!(int(5).floor_quotient(int(-2)).unwrap().eqv(int(-3)));
        assert!(int(-5).floor_remainder(int(2)).unwrap().eqv(int(1)));
        assert!(int(5).floor_remainder(int(-2)).unwrap().eqv(int(-1)));
        assert!(exact(-25, 2).floor_remainder(int(3)).unwrap().eqv(exact(5, 2)));
        assert!(exact(33, 7).floor_remainder(exact(5, 2)).unwrap().eqv(exact(31, 14)));
        assert_eq!(int(1).div(int(0)), Err(DivByZero));
    }
    impl PartialEq for RNum {
        fn eq(&self, o: &RNum) -> bool {
            self.eqv(*o)
        }
    }
}
